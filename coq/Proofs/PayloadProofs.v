(* Proofs/PayloadProofs.v -- invariants of Model/Payload.v and the lemmas behind Props/C10pl.v *)
From MV Require Import Base.Prelude Base.Res Model.Payload.

Ltac proj := cbn [items ch_len f_eof f_error f_need_read ch_err max_buf recv_reg
                  set_items set_eof set_errflag set_need_read set_err set_recv
                  md pl rd got woken set_pl set_rd set_got set_woken fst snd] in *.

(* ------------------------------------------------------------------ the channel *)
Definition sum_len (l : list bytes) : N := fold_right (fun d a => len d + a) 0 l.

Lemma sum_len_cons d l : sum_len (d :: l) = len d + sum_len l.
Proof. reflexivity. Qed.

Lemma sum_len_app l d : sum_len (l ++ [d]) = sum_len l + len d.
Proof.
  induction l as [|h t IH]; cbn [app]; rewrite ?sum_len_cons; [cbn [sum_len fold_right]; lia|].
  rewrite IH. lia.
Qed.

(* `len` is the number of buffered bytes *)
Definition chan_ok (c : chan) : Prop := ch_len c = sum_len (items c).

Definition same_flags (c c' : chan) : Prop :=
  f_eof c' = f_eof c /\ f_error c' = f_error c /\ ch_err c' = ch_err c /\ max_buf c' = max_buf c.

(* c' is c with the front chunk d taken out *)
Definition popped (c : chan) (d : bytes) (c' : chan) : Prop :=
  items c = d :: items c' /\ ch_len c' = ch_len c - len d /\ same_flags c c' /\ recv_reg c' = recv_reg c.

(* c' is c with every chunk taken out *)
Definition drained (c c' : chan) : Prop :=
  items c' = [] /\ ch_len c' = 0 /\ same_flags c c' /\ recv_reg c' = recv_reg c.

Lemma recv_wake_eq c : recv_wake c = (set_recv c false, recv_reg c).
Proof. destruct c as [i l e r n x m g]. unfold recv_wake, set_recv. proj. destruct g; reflexivity. Qed.

Lemma feed_data_spec c d :
  exists c', feed_data c d = (c', recv_reg c) /\ items c' = items c ++ [d] /\
             ch_len c' = ch_len c + len d /\ same_flags c c' /\ recv_reg c' = false.
Proof.
  unfold feed_data. rewrite recv_wake_eq. proj.
  destruct (max_buf c <=? ch_len c + len d); eexists; (split; [reflexivity|]); proj;
    unfold same_flags; proj; repeat split.
Qed.

Lemma feed_eof_spec c :
  exists c', feed_eof c = (c', recv_reg c) /\ items c' = items c /\ ch_len c' = ch_len c /\
             f_eof c' = true /\ f_error c' = f_error c /\ ch_err c' = ch_err c /\
             max_buf c' = max_buf c /\ recv_reg c' = false.
Proof. unfold feed_eof. rewrite recv_wake_eq. eexists. split; [reflexivity|]. proj. repeat split. Qed.

Lemma set_error_spec c e :
  exists c', set_error c e = (c', recv_reg c) /\ items c' = items c /\ ch_len c' = ch_len c /\
             f_eof c' = f_eof c /\ f_error c' = true /\ ch_err c' = Some e /\
             max_buf c' = max_buf c /\ recv_reg c' = false.
Proof. unfold set_error. rewrite recv_wake_eq. eexists. split; [reflexivity|]. proj. repeat split. Qed.

Lemma poll_read_some c d r :
  items c = d :: r -> len d <= ch_len c ->
  exists c1, poll_read c = Ok (RSome d, c1) /\ popped c d c1 /\ items c1 = r.
Proof.
  intros Hi Hl. unfold poll_read, get_data. rewrite Hi. unfold sub_chk.
  destruct (N.leb_spec (len d) (ch_len c)); [|lia]. cbn [bind].
  destruct (ch_len c - len d <? _); eexists; (split; [reflexivity|]); unfold popped, same_flags; proj;
    rewrite Hi; repeat split.
Qed.

Lemma poll_read_empty c :
  items c = [] ->
  poll_read c = match ch_err c with
                | Some e => Ok (RErr e, set_eof (set_err c None))
                | None => if f_eof c || f_error c then Ok (RNone, c) else Ok (RPending, set_recv c true)
                end.
Proof. intros Hi. unfold poll_read, get_data. rewrite Hi. reflexivity. Qed.

Lemma chan_ok_front c d r : chan_ok c -> items c = d :: r -> len d <= ch_len c.
Proof. unfold chan_ok. intros H Hi. rewrite H, Hi, sum_len_cons. lia. Qed.

Lemma chan_ok_popped c d c1 : chan_ok c -> popped c d c1 -> chan_ok c1.
Proof.
  unfold chan_ok, popped. intros H (Hi & Hl & _). rewrite Hl, H, Hi, sum_len_cons. lia.
Qed.

Lemma chan_ok_drained c c0 : drained c c0 -> chan_ok c0.
Proof. unfold chan_ok, drained. intros (Hi & Hl & _). rewrite Hi, Hl. reflexivity. Qed.

Lemma drained_refl c : chan_ok c -> items c = [] -> drained c c.
Proof.
  unfold chan_ok, drained, same_flags. intros H Hi. rewrite Hi in H. cbn in H. repeat split; assumption.
Qed.

Lemma drained_popped c d c1 c0 : popped c d c1 -> drained c1 c0 -> drained c c0.
Proof.
  unfold popped, drained, same_flags.
  intros (_ & _ & (A1 & A2 & A3 & A4) & A5) (B1 & B2 & (B3 & B4 & B5 & B6) & B7).
  repeat split; congruence.
Qed.

(* the result of the last read of read_all's loop, on a channel without chunks *)
Definition all_end (c c0 : chan) (acc : bytes) : rstate * chan * list bytes :=
  match ch_err c with
  | Some e => (Done (Some e), set_eof (set_err c0 None), [])
  | None =>
    if f_eof c || f_error c then (Done None, c0, [acc])
    else (AllLoop acc, set_recv c0 true, [])
  end.

Lemma all_loop_empty f c buf :
  items c = [] -> all_loop (S f) c buf = Ok (all_end c c buf).
Proof.
  intros Hi. cbn [all_loop]. rewrite (poll_read_empty c Hi). unfold all_end.
  destruct (ch_err c); cbn [bind]; [reflexivity|].
  destruct (f_eof c || f_error c); reflexivity.
Qed.

Lemma all_loop_drain its : forall c buf fuel,
  items c = its -> chan_ok c -> (length its < fuel)%nat ->
  exists c0, drained c c0 /\
             all_loop fuel c buf = Ok (all_end c c0 (buf ++ concat its)).
Proof.
  induction its as [|d r IH]; intros c buf fuel Hi Hok Hf.
  - exists c. split; [apply drained_refl; assumption|].
    destruct fuel as [|f]; [cbn in Hf; lia|].
    cbn [concat]. rewrite app_nil_r. apply all_loop_empty. assumption.
  - destruct fuel as [|f]; [cbn in Hf; lia|]. cbn [length] in Hf.
    destruct (poll_read_some c d r Hi (chan_ok_front _ _ _ Hok Hi)) as (c1 & Hp & Hpop & Hi1).
    cbn [all_loop]. rewrite Hp. cbn [bind].
    destruct (IH c1 (buf ++ d) f Hi1 (chan_ok_popped _ _ _ Hok Hpop) ltac:(lia)) as (c0 & Hd & Hl).
    exists c0. split; [eapply drained_popped; eassumption|].
    rewrite Hl. cbn [concat]. rewrite app_assoc.
    destruct Hpop as (_ & _ & (F1 & F2 & F3 & _) & _). unfold all_end. rewrite F1, F2, F3. reflexivity.
Qed.

Lemma all_loop_spec c buf :
  chan_ok c ->
  exists c0, drained c c0 /\
             all_loop (loop_fuel c) c buf = Ok (all_end c c0 (buf ++ concat (items c))).
Proof. intros Hok. apply all_loop_drain; auto. Qed.

(* ------------------------------------------------------------------ one poll of the reader, explicitly *)
Definition fresh (r : rstate) : bool := match r with AllNew | AllFirst => true | _ => false end.
Definition acc_of (r : rstate) : bytes := match r with AllLoop b => b | _ => [] end.
Definition is_all (r : rstate) : bool := match r with AllNew | AllFirst | AllLoop _ => true | _ => false end.
Definition is_loop (r : rstate) : bool := match r with LoopIdle | LoopWait => true | _ => false end.
Definition isnil {A} (l : list A) : bool := match l with [] => true | _ => false end.

(* read_all polled on a stream: everything buffered is taken; the outcome depends on err / flags *)
Definition all_out (r : rstate) (c c0 : chan) : rstate * chan * list bytes :=
  match ch_err c with
  | Some e => (Done (Some e), set_eof (set_err c0 None), [])
  | None =>
    if f_eof c || f_error c then
      if fresh r && isnil (items c) then (Done (Some E_CONSUMED), c0, [])
      else (Done None, c0, [acc_of r ++ concat (items c)])
    else
      (if fresh r && isnil (items c) then AllFirst else AllLoop (acc_of r ++ concat (items c)),
       set_recv c0 true, [])
  end.

Lemma poll_spec_all s c :
  pl s = PStream c -> chan_ok c -> is_all (rd s) = true ->
  exists c0, drained c c0 /\
    step s Poll = Ok (let '(r, c', g) := all_out (rd s) c c0 in mkSt (md s) (PStream c') r g false).
Proof.
  intros Hp Hok Ha. cbn [step]. unfold step_poll.
  destruct (rd s) eqn:Er; try discriminate; proj; rewrite Hp.
  1,2: cbn [all_first];
    destruct (items c) as [|d r] eqn:Hi;
    [ exists c; split; [apply drained_refl; assumption|];
      rewrite (poll_read_empty c Hi); unfold all_out; rewrite Hi; cbn [fresh isnil andb];
      destruct (ch_err c); cbn [bind]; [reflexivity|];
      destruct (f_eof c || f_error c); reflexivity
    | destruct (poll_read_some c d r Hi (chan_ok_front _ _ _ Hok Hi)) as (c1 & Hpr & Hpop & Hi1);
      rewrite Hpr; cbn [bind];
      destruct (all_loop_spec c1 d (chan_ok_popped _ _ _ Hok Hpop)) as (c0 & Hd & Hl);
      exists c0; split; [eapply drained_popped; eassumption|];
      rewrite Hl, Hi1; cbn [bind];
      destruct Hpop as (_ & _ & (F1 & F2 & F3 & _) & _);
      unfold all_out, all_end; rewrite Hi, F1, F2, F3; cbn [fresh isnil andb acc_of app concat];
      destruct (ch_err c); [reflexivity|]; destruct (f_eof c || f_error c); reflexivity ].
  destruct (all_loop_spec c buf Hok) as (c0 & Hd & Hl). exists c0. split; [assumption|].
  rewrite Hl. cbn [bind]. unfold all_out, all_end. cbn [fresh andb acc_of].
  destruct (ch_err c); [reflexivity|]. destruct (f_eof c || f_error c); reflexivity.
Qed.

Definition loop_out (s : st) (c : chan) : st :=
  match ch_err c with
  | Some e => mkSt (md s) (PStream (set_eof (set_err c None))) (Done (Some e)) (got s) false
  | None =>
    if f_eof c || f_error c then mkSt (md s) (PStream c) (Done None) (got s) false
    else mkSt (md s) (PStream (set_recv c true)) LoopWait (got s) false
  end.

Lemma poll_spec_loop s c :
  pl s = PStream c -> chan_ok c -> is_loop (rd s) = true ->
  match items c with
  | d :: _ => exists c1, popped c d c1 /\
                         step s Poll = Ok (mkSt (md s) (PStream c1) LoopIdle (got s ++ [d]) false)
  | [] => step s Poll = Ok (loop_out s c)
  end.
Proof.
  intros Hp Hok Ha. cbn [step]. unfold step_poll.
  destruct (rd s) eqn:Er; try discriminate; proj; rewrite Hp; cbn [pl_read].
  all: destruct (items c) as [|d r] eqn:Hi;
    [ rewrite (poll_read_empty c Hi); unfold loop_out;
      destruct (ch_err c); cbn [bind]; [reflexivity|];
      destruct (f_eof c || f_error c); reflexivity
    | destruct (poll_read_some c d r Hi (chan_ok_front _ _ _ Hok Hi)) as (c1 & Hpr & Hpop & Hi1);
      exists c1; split; [assumption|]; rewrite Hpr; reflexivity ].
Qed.

(* ------------------------------------------------------------------ the invariant of a streamed payload *)
(* F: the chunks fed so far (first piece included); eof: feed_eof has been called; last: the error of
   the most recent set_error *)
Definition content (s : st) (c : chan) (F : list bytes) : Prop :=
  match md s, rd s with
  | MLoop, (LoopIdle | LoopWait | Done _) => got s ++ items c = F
  | MAll, (AllNew | AllFirst) => got s = [] /\ items c = F
  | MAll, AllLoop buf => got s = [] /\ buf ++ concat (items c) = concat F
  | MAll, Done None => exists r, got s = [r] /\ r ++ concat (items c) = concat F
  | MAll, Done (Some _) => got s = []
  | _, _ => False
  end.

Record Inv (F : list bytes) (eof : bool) (last : option N) (s : st) (c : chan) : Prop := mkInv {
  i_pl : pl s = PStream c;
  i_ok : chan_ok c;
  i_content : content s c F;
  i_eof1 : f_eof c = true -> eof = true \/ exists e, rd s = Done (Some e);
  i_eof2 : eof = true -> f_eof c = true;
  i_err1 : f_error c = true -> ch_err c <> None \/ exists e, rd s = Done (Some e);
  i_err2 : last = None -> ch_err c = None /\ f_error c = false;
  i_err3 : forall x, ch_err c = Some x -> last = Some x;
  i_err4 : last <> None -> running (rd s) = true -> ch_err c <> None;
  i_wake : borrowed (rd s) = true -> woken s = true \/ (recv_reg c = true /\ can_progress c = false)
}.

Lemma content_ext s s' c c' F F' :
  md s' = md s -> rd s' = rd s -> got s' = got s ->
  (forall g, g ++ items c = F -> g ++ items c' = F') ->
  (forall b, b ++ concat (items c) = concat F -> b ++ concat (items c') = concat F') ->
  content s c F -> content s' c' F'.
Proof.
  unfold content. intros -> -> -> H1 H2.
  destruct (md s), (rd s) as [| | | | buf |[e|]]; auto.
  - intros (A & B). split; [assumption|]. apply (H1 []). assumption.
  - intros (A & B). split; [assumption|]. apply (H1 []). assumption.
  - intros (A & B). split; auto.
  - intros (r & A & B). exists r. split; auto.
Qed.

(* an operation of the sender: the error state is either untouched or set to e *)
Lemma inv_sender F eof last s c c' w (F' : list bytes) (eof' : bool) (last' : option N) :
  Inv F eof last s c ->
  chan_ok c' ->
  (forall g, g ++ items c = F -> g ++ items c' = F') ->
  (forall b, b ++ concat (items c) = concat F -> b ++ concat (items c') = concat F') ->
  (f_eof c' = true -> f_eof c = true \/ eof' = true) -> (eof = true -> eof' = true) ->
  (eof' = true -> f_eof c' = true) ->
  ((f_error c' = f_error c /\ ch_err c' = ch_err c /\ last' = last) \/
   (exists e, f_error c' = true /\ ch_err c' = Some e /\ last' = Some e)) ->
  w = recv_reg c ->
  Inv F' eof' last' (set_woken (set_pl s (PStream c')) (woken s || w)) c'.
Proof.
  intros I Hok H1 H2 E1 E2 E3 R ->. constructor; proj.
  - reflexivity.
  - assumption.
  - eapply content_ext; [| | | exact H1 | exact H2 | apply I]; reflexivity.
  - intros H. destruct (E1 H) as [H'|H']; [|auto]. destruct (i_eof1 _ _ _ _ _ I H') as [X|X]; auto.
  - assumption.
  - destruct R as [(A & B & C)|(e & A & B & C)].
    + rewrite A, B. apply I.
    + intros _. left. rewrite B. discriminate.
  - destruct R as [(A & B & C)|(e & A & B & C)].
    + rewrite A, B, C. apply I.
    + rewrite C. discriminate.
  - destruct R as [(A & B & C)|(e & A & B & C)].
    + rewrite B, C. apply I.
    + rewrite B, C. auto.
  - destruct R as [(A & B & C)|(e & A & B & C)].
    + rewrite B, C. apply I.
    + intros _ _. rewrite B. discriminate.
  - intros H. left. destruct (i_wake _ _ _ _ _ I H) as [X|(X & _)]; rewrite X; [reflexivity|apply orb_true_r].
Qed.

Lemma concat_snoc (l : list bytes) d : concat (l ++ [d]) = concat l ++ d.
Proof. rewrite concat_app. cbn [concat]. rewrite app_nil_r. reflexivity. Qed.

Lemma inv_feed F eof last s c d :
  Inv F eof last s c ->
  exists c', step s (Feed d) = Ok (set_woken (set_pl s (PStream c')) (woken s || recv_reg c)) /\
             Inv (F ++ [d]) eof last (set_woken (set_pl s (PStream c')) (woken s || recv_reg c)) c'.
Proof.
  intros I. destruct (feed_data_spec c d) as (c' & Hf & Hi & Hl & (A1 & A2 & A3 & A4) & Hr).
  exists c'. split.
  - cbn [step]. unfold on_chan. rewrite (i_pl _ _ _ _ _ I), Hf. reflexivity.
  - eapply inv_sender; try exact I; try reflexivity.
    + unfold chan_ok. rewrite Hl, Hi, sum_len_app, (i_ok _ _ _ _ _ I). reflexivity.
    + intros g H. rewrite Hi, app_assoc, H. reflexivity.
    + intros b H. rewrite Hi, !concat_snoc, app_assoc, H. reflexivity.
    + rewrite A1. auto.
    + auto.
    + rewrite A1. apply I.
    + left. auto.
Qed.

Lemma inv_feed_eof F eof last s c :
  Inv F eof last s c ->
  exists c', step s FeedEof = Ok (set_woken (set_pl s (PStream c')) (woken s || recv_reg c)) /\
             Inv F true last (set_woken (set_pl s (PStream c')) (woken s || recv_reg c)) c'.
Proof.
  intros I. destruct (feed_eof_spec c) as (c' & Hf & Hi & Hl & A1 & A2 & A3 & A4 & Hr).
  exists c'. split.
  - cbn [step]. unfold on_chan. rewrite (i_pl _ _ _ _ _ I), Hf. reflexivity.
  - eapply inv_sender; try exact I; try reflexivity.
    + unfold chan_ok. rewrite Hl, Hi. apply I.
    + rewrite Hi. auto.
    + rewrite Hi. auto.
    + auto.
    + auto.
    + left. auto.
Qed.

Lemma inv_set_error F eof last s c e :
  Inv F eof last s c ->
  exists c', step s (SetError e) = Ok (set_woken (set_pl s (PStream c')) (woken s || recv_reg c)) /\
             Inv F eof (Some e) (set_woken (set_pl s (PStream c')) (woken s || recv_reg c)) c'.
Proof.
  intros I. destruct (set_error_spec c e) as (c' & Hf & Hi & Hl & A1 & A2 & A3 & A4 & Hr).
  exists c'. split.
  - cbn [step]. unfold on_chan. rewrite (i_pl _ _ _ _ _ I), Hf. reflexivity.
  - eapply inv_sender; try exact I; try reflexivity.
    + unfold chan_ok. rewrite Hl, Hi. apply I.
    + rewrite Hi. auto.
    + rewrite Hi. auto.
    + rewrite A1. auto.
    + auto.
    + rewrite A1. apply I.
    + right. eauto.
Qed.

Lemma inv_take F eof last s c :
  Inv F eof last s c -> Inv F eof last (step_take s) c.
Proof.
  intros I. unfold step_take. destruct (borrowed (rd s)); [assumption|].
  cbn [pl_take fst]. destruct I. constructor; proj; auto.
Qed.

Lemma content_mode_loop s c F : content s c F -> is_loop (rd s) = true -> md s = MLoop.
Proof. unfold content. destruct (md s), (rd s); try discriminate; try contradiction; auto. Qed.

Lemma content_mode_all s c F : content s c F -> is_all (rd s) = true -> md s = MAll.
Proof. unfold content. destruct (md s), (rd s); try discriminate; try contradiction; auto. Qed.

(* facts about a running reader that follow from the invariant *)
Lemma inv_eof_running F eof last s c :
  Inv F eof last s c -> running (rd s) = true -> f_eof c = true -> eof = true.
Proof.
  intros I Hr H. destruct (i_eof1 _ _ _ _ _ I H) as [X|(e & X)]; [assumption|].
  rewrite X in Hr. discriminate.
Qed.

Lemma inv_err_running F eof last s c :
  Inv F eof last s c -> running (rd s) = true -> f_error c = true -> ch_err c <> None.
Proof.
  intros I Hr H. destruct (i_err1 _ _ _ _ _ I H) as [X|(e & X)]; [assumption|].
  rewrite X in Hr. discriminate.
Qed.

Lemma running_loop r : is_loop r = true -> running r = true.
Proof. destruct r; auto; discriminate. Qed.
Lemma running_all r : is_all r = true -> running r = true.
Proof. destruct r; auto; discriminate. Qed.

Lemma content_loop F eof last s c :
  Inv F eof last s c -> is_loop (rd s) = true -> md s = MLoop /\ got s ++ items c = F.
Proof.
  intros I Hl. pose proof (content_mode_loop _ _ _ (i_content _ _ _ _ _ I) Hl) as Hm.
  split; [assumption|]. pose proof (i_content _ _ _ _ _ I) as C. unfold content in C. rewrite Hm in C.
  destruct (rd s); try discriminate; exact C.
Qed.

Lemma content_all F eof last s c :
  Inv F eof last s c -> is_all (rd s) = true ->
  md s = MAll /\ acc_of (rd s) ++ concat (items c) = concat F /\ (fresh (rd s) = true -> items c = F).
Proof.
  intros I Ha. pose proof (content_mode_all _ _ _ (i_content _ _ _ _ _ I) Ha) as Hm.
  split; [assumption|]. pose proof (i_content _ _ _ _ _ I) as C. unfold content in C. rewrite Hm in C.
  destruct (rd s); try discriminate; cbn [acc_of fresh app].
  - destruct C as (_ & <-). auto.
  - destruct C as (_ & <-). auto.
  - destruct C as (_ & C). split; [assumption|discriminate].
Qed.

Lemma inv_poll_loop F eof last s c :
  Inv F eof last s c -> is_loop (rd s) = true ->
  exists s' c', step s Poll = Ok s' /\ Inv F eof last s' c' /\ md s' = md s.
Proof.
  intros I Hl.
  destruct (content_loop _ _ _ _ _ I Hl) as (Hm & C').
  pose proof (running_loop _ Hl) as Hrun.
  pose proof (poll_spec_loop s c (i_pl _ _ _ _ _ I) (i_ok _ _ _ _ _ I) Hl) as P.
  destruct (items c) as [|d r] eqn:Hi.
  - (* no chunk *)
    unfold loop_out in P. destruct (ch_err c) as [e|] eqn:He.
    + eexists. exists (set_eof (set_err c None)). split; [exact P|]. split; [|reflexivity].
      constructor; proj.
      * reflexivity.
      * unfold chan_ok. proj. apply I.
      * unfold content. proj. rewrite Hm, Hi. assumption.
      * intros _. right. eauto.
      * reflexivity.
      * intros _. right. eauto.
      * intros H. destruct (i_err2 _ _ _ _ _ I H) as (X & _). congruence.
      * discriminate.
      * discriminate.
      * discriminate.
    + destruct (f_eof c || f_error c) eqn:Hf.
      * eexists. exists c. split; [exact P|]. split; [|reflexivity].
        constructor; proj.
        -- reflexivity.
        -- apply I.
        -- unfold content. proj. rewrite Hm, Hi. assumption.
        -- intros H. left. eapply inv_eof_running; eassumption.
        -- apply I.
        -- intros H. exfalso. exact (inv_err_running _ _ _ _ _ I Hrun H He).
        -- apply I.
        -- apply I.
        -- discriminate.
        -- discriminate.
      * apply orb_false_iff in Hf as (Hf1 & Hf2).
        eexists. exists (set_recv c true). split; [exact P|]. split; [|reflexivity].
        constructor; proj.
        -- reflexivity.
        -- unfold chan_ok. proj. apply I.
        -- unfold content. proj. rewrite Hm, Hi. assumption.
        -- rewrite Hf1. discriminate.
        -- apply I.
        -- rewrite Hf2. discriminate.
        -- apply I.
        -- apply I.
        -- intros H _. exact (i_err4 _ _ _ _ _ I H Hrun).
        -- intros _. right. split; [reflexivity|]. unfold can_progress. proj. rewrite Hi, He, Hf1, Hf2. reflexivity.
  - destruct P as (c1 & Hpop & P).
    eexists. exists c1. split; [exact P|]. split; [|reflexivity].
    pose proof Hpop as (Q1 & Q2 & (Q3 & Q4 & Q5 & Q6) & Q7).
    constructor; proj.
    + reflexivity.
    + eapply chan_ok_popped; [apply I|eassumption].
    + unfold content. proj. rewrite Hm. rewrite Hi in Q1. injection Q1 as <-.
      rewrite <- app_assoc. exact C'.
    + rewrite Q3. intros H. left. eapply inv_eof_running; eassumption.
    + rewrite Q3. apply I.
    + rewrite Q4, Q5. intros H. left. eapply inv_err_running; eassumption.
    + rewrite Q4, Q5. apply I.
    + rewrite Q5. apply I.
    + rewrite Q5. intros H _. exact (i_err4 _ _ _ _ _ I H Hrun).
    + discriminate.
Qed.

Lemma andb_fresh_nil r (l : list bytes) : fresh r && isnil l = true -> fresh r = true /\ l = [].
Proof. intros H. apply andb_true_iff in H as (A & B). split; [assumption|]. destruct l; [reflexivity|discriminate]. Qed.

Lemma inv_poll_all F eof last s c :
  Inv F eof last s c -> is_all (rd s) = true ->
  exists s' c', step s Poll = Ok s' /\ Inv F eof last s' c' /\ md s' = md s.
Proof.
  intros I Ha.
  destruct (content_all _ _ _ _ _ I Ha) as (Hm & C1 & C2).
  pose proof (running_all _ Ha) as Hrun.
  destruct (poll_spec_all s c (i_pl _ _ _ _ _ I) (i_ok _ _ _ _ _ I) Ha) as (c0 & Hd & P).
  pose proof Hd as (D1 & D2 & (D3 & D4 & D5 & D6) & D7).
  pose proof (i_err2 _ _ _ _ _ I) as J2. pose proof (i_err3 _ _ _ _ _ I) as J3.
  pose proof (i_err4 _ _ _ _ _ I) as J4.
  unfold all_out in P.
  destruct (ch_err c) as [e|] eqn:He.
  - cbv beta iota in P.
    eexists. exists (set_eof (set_err c0 None)). split; [exact P|]. split; [|reflexivity].
    constructor; proj.
    + reflexivity.
    + unfold chan_ok. proj. rewrite D1, D2. reflexivity.
    + unfold content. proj. rewrite Hm. reflexivity.
    + intros _. right. eauto.
    + reflexivity.
    + intros _. right. eauto.
    + intros H. destruct (J2 H) as (X & _). discriminate.
    + discriminate.
    + discriminate.
    + discriminate.
  - destruct (f_eof c || f_error c) eqn:Hf.
    + destruct (fresh (rd s) && isnil (items c)) eqn:Hn; cbv beta iota in P.
      * eexists. exists c0. split; [exact P|]. split; [|reflexivity].
        constructor; proj.
        -- reflexivity.
        -- eapply chan_ok_drained; eassumption.
        -- unfold content. proj. rewrite Hm. reflexivity.
        -- intros _. right. eauto.
        -- rewrite D3. apply I.
        -- intros _. right. eauto.
        -- rewrite D4, D5. exact J2.
        -- rewrite D5. discriminate.
        -- discriminate.
        -- discriminate.
      * eexists. exists c0. split; [exact P|]. split; [|reflexivity].
        constructor; proj.
        -- reflexivity.
        -- eapply chan_ok_drained; eassumption.
        -- unfold content. proj. rewrite Hm. eexists. split; [reflexivity|].
           rewrite D1. cbn [concat]. rewrite app_nil_r. exact C1.
        -- rewrite D3. intros H. left. eapply inv_eof_running; eassumption.
        -- rewrite D3. apply I.
        -- rewrite D4. intros H. exfalso. apply (inv_err_running _ _ _ _ _ I Hrun H). assumption.
        -- rewrite D4, D5. exact J2.
        -- rewrite D5. discriminate.
        -- discriminate.
        -- discriminate.
    + apply orb_false_iff in Hf as (Hf1 & Hf2).
      assert (W : recv_reg (set_recv c0 true) = true /\ can_progress (set_recv c0 true) = false).
      { split; [reflexivity|]. unfold can_progress. proj. rewrite D1, D5, D3, D4, Hf1, Hf2. reflexivity. }
      destruct (fresh (rd s) && isnil (items c)) eqn:Hn; cbv beta iota in P.
      * apply andb_fresh_nil in Hn as (Hn1 & Hn2).
        eexists. exists (set_recv c0 true). split; [exact P|]. split; [|reflexivity].
        constructor; proj.
        -- reflexivity.
        -- unfold chan_ok. proj. rewrite D1, D2. reflexivity.
        -- unfold content. proj. rewrite Hm. split; [reflexivity|]. rewrite D1, <- (C2 Hn1), Hn2. reflexivity.
        -- rewrite D3, Hf1. discriminate.
        -- rewrite D3. apply I.
        -- rewrite D4, Hf2. discriminate.
        -- rewrite D4, D5. exact J2.
        -- rewrite D5. discriminate.
        -- intros H _. exfalso. exact (J4 H Hrun eq_refl).
        -- intros _. right. exact W.
      * eexists. exists (set_recv c0 true). split; [exact P|]. split; [|reflexivity].
        constructor; proj.
        -- reflexivity.
        -- unfold chan_ok. proj. rewrite D1, D2. reflexivity.
        -- unfold content. proj. rewrite Hm. split; [reflexivity|].
           rewrite D1. cbn [concat]. rewrite app_nil_r. exact C1.
        -- rewrite D3, Hf1. discriminate.
        -- rewrite D3. apply I.
        -- rewrite D4, Hf2. discriminate.
        -- rewrite D4, D5. exact J2.
        -- rewrite D5. discriminate.
        -- intros H _. exfalso. exact (J4 H Hrun eq_refl).
        -- intros _. right. exact W.
Qed.

Lemma rd_cases r : is_loop r = true \/ is_all r = true \/ exists x, r = Done x.
Proof. destruct r; cbn; eauto. Qed.

Lemma step_poll_done s x : rd s = Done x -> step s Poll = Ok s.
Proof. intros H. cbn [step]. unfold step_poll. rewrite H. reflexivity. Qed.

Definition last_step (last : option N) (o : op) : option N :=
  match o with SetError e => Some e | _ => last end.
Definition last_run (last : option N) (ops : list op) : option N := fold_left last_step ops last.

(* every operation keeps the invariant and succeeds: no panic, the fuel of read_all's loop suffices *)
Lemma inv_step F eof last s c o :
  Inv F eof last s c ->
  exists s' c', step s o = Ok s' /\
                Inv (F ++ fed_ops [o]) (eof || is_feed_eof o) (last_step last o) s' c' /\
                md s' = md s.
Proof.
  intros I. destruct o as [d| |e| |]; cbn [fed_ops is_feed_eof last_step];
    rewrite ?app_nil_r, ?orb_false_r, ?orb_true_r.
  - destruct (inv_feed _ _ _ _ _ d I) as (c' & H1 & H2). eauto.
  - destruct (inv_feed_eof _ _ _ _ _ I) as (c' & H1 & H2). eauto.
  - destruct (inv_set_error _ _ _ _ _ e I) as (c' & H1 & H2). eauto.
  - destruct (rd_cases (rd s)) as [H|[H|(x & H)]].
    + eapply inv_poll_loop; eassumption.
    + eapply inv_poll_all; eassumption.
    + exists s, c. split; [eapply step_poll_done; eassumption|]. auto.
  - exists (step_take s), c. split; [reflexivity|]. split; [apply inv_take; assumption|].
    unfold step_take. destruct (borrowed (rd s)); reflexivity.
Qed.

Lemma fed_ops_app a b : fed_ops (a ++ b) = fed_ops a ++ fed_ops b.
Proof.
  induction a as [|o r IH]; [reflexivity|]. cbn [app fed_ops]. destruct o; rewrite IH; reflexivity.
Qed.

Lemma inv_run ops : forall F eof last s c,
  Inv F eof last s c ->
  exists s' c', run_from s ops = Ok s' /\
                Inv (F ++ fed_ops ops) (eof || eof_fed ops) (last_run last ops) s' c' /\ md s' = md s.
Proof.
  induction ops as [|o r IH]; intros F eof last s c I.
  - exists s, c. cbn [run_from fed_ops eof_fed existsb last_run fold_left]. rewrite app_nil_r, !orb_false_r. auto.
  - destruct (inv_step _ _ _ _ _ o I) as (s1 & c1 & H1 & I1 & M1).
    destruct (IH _ _ _ _ _ I1) as (s2 & c2 & H2 & I2 & M2).
    exists s2, c2. cbn [run_from]. rewrite H1. cbn [bind]. split; [assumption|]. split; [|congruence].
    assert (E1 : F ++ fed_ops (o :: r) = (F ++ fed_ops [o]) ++ fed_ops r).
    { change (o :: r) with ([o] ++ r). rewrite fed_ops_app, app_assoc. reflexivity. }
    assert (E2 : eof || eof_fed (o :: r) = (eof || is_feed_eof o) || eof_fed r).
    { unfold eof_fed. cbn [existsb]. apply orb_assoc. }
    rewrite E1, E2. exact I2.
Qed.

Lemma inv_init m first size :
  exists c, Inv (first_chunks first) false None (init_stream m first size) c.
Proof.
  unfold init_stream, from_stream. destruct first as [|b t].
  - exists (chan_new size). constructor; proj; try discriminate; try reflexivity.
    + unfold content. proj. destruct m; cbn [start_of]; auto.
    + auto.
    + intros H. contradiction.
    + destruct m; discriminate.
  - destruct (feed_data_spec (chan_new size) (b :: t)) as (c' & Hf & Hi & Hl & (A1 & A2 & A3 & A4) & Hr).
    exists c'. rewrite Hf. cbn [fst]. constructor; proj.
    + reflexivity.
    + unfold chan_ok. rewrite Hl, Hi. cbn. lia.
    + unfold content. proj. rewrite Hi. destruct m; cbn [start_of first_chunks app]; auto.
    + rewrite A1. discriminate.
    + discriminate.
    + rewrite A2. discriminate.
    + intros _. rewrite A2, A3. auto.
    + rewrite A3. discriminate.
    + intros H. contradiction.
    + destruct m; discriminate.
Qed.

(* the invariant in every reachable state *)
Lemma reach m first size ops :
  exists s c, run m first size ops = Ok s /\
              Inv (fed_chunks first ops) (eof_fed ops) (last_run None ops) s c /\ md s = m.
Proof.
  destruct (inv_init m first size) as (c0 & I0).
  destruct (inv_run ops _ _ _ _ _ I0) as (s & c & H & I & M).
  exists s, c. split; [exact H|]. split; [exact I|]. rewrite M. reflexivity.
Qed.

Lemma reach_inv m first size ops s :
  run m first size ops = Ok s ->
  exists c, Inv (fed_chunks first ops) (eof_fed ops) (last_run None ops) s c /\ md s = m.
Proof.
  intros H. destruct (reach m first size ops) as (s' & c & H' & I & M).
  rewrite H in H'. injection H' as <-. eauto.
Qed.

(* ------------------------------------------------------------------ frame facts of the steps *)
Lemma on_chan_frame s f : rd (on_chan s f) = rd s /\ got (on_chan s f) = got s /\ md (on_chan s f) = md s.
Proof. unfold on_chan. destruct (pl s) as [o|c]; [auto|]. destruct (f c). proj. auto. Qed.

Lemma step_frame s o s' :
  step s o = Ok s' -> is_poll o = false -> rd s' = rd s /\ got s' = got s /\ md s' = md s.
Proof.
  destruct o; cbn [step is_poll]; intros H Hp; try discriminate; injection H as <-;
    try apply on_chan_frame.
  unfold step_take. destruct (borrowed (rd s)); proj; auto.
Qed.

Lemma step_done s o s' x : rd s = Done x -> step s o = Ok s' -> rd s' = Done x /\ got s' = got s.
Proof.
  intros Hd H. destruct (is_poll o) eqn:Hp.
  - destruct o; try discriminate. rewrite (step_poll_done _ _ Hd) in H. injection H as <-. auto.
  - destruct (step_frame _ _ _ H Hp) as (A & B & _). rewrite A. auto.
Qed.

Lemma run_done ops : forall s s' x,
  rd s = Done x -> run_from s ops = Ok s' -> rd s' = Done x /\ got s' = got s.
Proof.
  induction ops as [|o r IH]; intros s s' x Hd H; cbn [run_from] in H.
  - injection H as <-. auto.
  - destruct (step s o) as [s1| |] eqn:E; cbn [bind] in H; try discriminate.
    destruct (step_done _ _ _ _ Hd E) as (A & B).
    destruct (IH _ _ _ A H) as (C & D). split; congruence.
Qed.

Lemma run_from_app a : forall s b s1, run_from s a = Ok s1 -> run_from s (a ++ b) = run_from s1 b.
Proof.
  induction a as [|o r IH]; intros s b s1 H; cbn [app run_from] in *.
  - injection H as <-. reflexivity.
  - destruct (step s o) as [s2| |] eqn:E; cbn [bind] in *; try discriminate. apply IH. assumption.
Qed.

Lemma running_not_done r : running r = false -> exists x, r = Done x.
Proof. destruct r; try discriminate; eauto. Qed.

(* a finished reader finished at one definite poll, and nothing it holds changes afterwards *)
Lemma first_done ops : forall s s' x,
  run_from s ops = Ok s' -> running (rd s) = true -> rd s' = Done x ->
  exists pre post s1 s2,
    ops = pre ++ Poll :: post /\ run_from s pre = Ok s1 /\ running (rd s1) = true /\
    step s1 Poll = Ok s2 /\ rd s2 = Done x /\ got s' = got s2.
Proof.
  induction ops as [|o r IH]; intros s s' x H Hr Hd; cbn [run_from] in H.
  - injection H as <-. rewrite Hd in Hr. discriminate.
  - destruct (step s o) as [s1| |] eqn:E; cbn [bind] in H; try discriminate.
    destruct (running (rd s1)) eqn:Hr1.
    + destruct (IH _ _ _ H Hr1 Hd) as (pre & post & t1 & t2 & A & B & C & D & G & K).
      exists (o :: pre), post, t1, t2. cbn [app run_from]. rewrite E. cbn [bind]. subst r. auto 10.
    + apply running_not_done in Hr1 as (y & Hy).
      destruct (is_poll o) eqn:Hp.
      * destruct o; try discriminate.
        destruct (run_done _ _ _ _ Hy H) as (A & B).
        exists [], r, s, s1. cbn [app run_from]. rewrite A in Hd. injection Hd as <-. auto 10.
      * destruct (step_frame _ _ _ E Hp) as (A & _). rewrite A in Hy. rewrite Hy in Hr. discriminate.
Qed.

(* ------------------------------------------------------------------ the finishing poll *)
Lemma finish_ok F eof last s c s2 :
  Inv F eof last s c -> running (rd s) = true -> step s Poll = Ok s2 -> rd s2 = Done None ->
  eof = true /\ match md s with MLoop => got s2 = F | MAll => got s2 = [concat F] end.
Proof.
  intros I Hrun H Hd. destruct (rd_cases (rd s)) as [Hl|[Ha|(x & Hx)]].
  - destruct (content_loop _ _ _ _ _ I Hl) as (Hm & C).
    pose proof (poll_spec_loop s c (i_pl _ _ _ _ _ I) (i_ok _ _ _ _ _ I) Hl) as P.
    destruct (items c) as [|d r] eqn:Hi.
    + rewrite P in H. injection H as <-. unfold loop_out in Hd |- *.
      destruct (ch_err c) eqn:He; proj; [discriminate|].
      destruct (f_eof c || f_error c) eqn:Hf; proj; [|discriminate].
      rewrite Hm. rewrite app_nil_r in C. split; [|assumption].
      apply orb_true_iff in Hf as [Hf|Hf]; [eapply inv_eof_running; eassumption|].
      exfalso. exact (inv_err_running _ _ _ _ _ I Hrun Hf He).
    + destruct P as (c1 & _ & P). rewrite P in H. injection H as <-. proj. discriminate.
  - destruct (content_all _ _ _ _ _ I Ha) as (Hm & C1 & C2).
    destruct (poll_spec_all s c (i_pl _ _ _ _ _ I) (i_ok _ _ _ _ _ I) Ha) as (c0 & Hdr & P).
    rewrite P in H. injection H as <-. unfold all_out in Hd |- *.
    destruct (ch_err c) eqn:He; proj; [discriminate|].
    destruct (f_eof c || f_error c) eqn:Hf.
    + destruct (fresh (rd s) && isnil (items c)); proj; [discriminate|].
      rewrite Hm, C1. split; [|reflexivity].
      apply orb_true_iff in Hf as [Hf|Hf]; [eapply inv_eof_running; eassumption|].
      exfalso. exact (inv_err_running _ _ _ _ _ I Hrun Hf He).
    + destruct (fresh (rd s) && isnil (items c)); proj; discriminate.
  - rewrite Hx in Hrun. discriminate.
Qed.

(* with an error set and not yet taken the finishing poll answers that error *)
Lemma finish_err F eof last s c s2 x :
  Inv F eof last s c -> last <> None -> running (rd s) = true -> step s Poll = Ok s2 -> rd s2 = Done x ->
  x = last.
Proof.
  intros I Hl Hrun H Hd.
  pose proof (i_err4 _ _ _ _ _ I Hl Hrun) as He.
  destruct (ch_err c) as [e|] eqn:Ee; [|contradiction]. clear He.
  pose proof (i_err3 _ _ _ _ _ I e Ee) as Hlast. subst last.
  destruct (rd_cases (rd s)) as [Hlp|[Ha|(y & Hy)]].
  - pose proof (poll_spec_loop s c (i_pl _ _ _ _ _ I) (i_ok _ _ _ _ _ I) Hlp) as P.
    destruct (items c) as [|d r] eqn:Hi.
    + rewrite P in H. injection H as <-. unfold loop_out in Hd. rewrite Ee in Hd. proj. congruence.
    + destruct P as (c1 & _ & P). rewrite P in H. injection H as <-. proj. discriminate.
  - destruct (poll_spec_all s c (i_pl _ _ _ _ _ I) (i_ok _ _ _ _ _ I) Ha) as (c0 & Hdr & P).
    rewrite P in H. injection H as <-. unfold all_out in Hd. rewrite Ee in Hd. proj. congruence.
  - rewrite Hy in Hrun. discriminate.
Qed.

(* read_all polled with an error pending finishes *)
Lemma poll_all_err F eof last s c s2 :
  Inv F eof last s c -> last <> None -> is_all (rd s) = true -> step s Poll = Ok s2 ->
  running (rd s2) = false.
Proof.
  intros I Hl Ha H.
  pose proof (i_err4 _ _ _ _ _ I Hl (running_all _ Ha)) as He.
  destruct (ch_err c) as [e|] eqn:Ee; [|contradiction].
  destruct (poll_spec_all s c (i_pl _ _ _ _ _ I) (i_ok _ _ _ _ _ I) Ha) as (c0 & Hdr & P).
  rewrite P in H. injection H as <-. unfold all_out. rewrite Ee. reflexivity.
Qed.

(* ------------------------------------------------------------------ theorems *)
Lemma start_running m : running (start_of m) = true.
Proof. destruct m; reflexivity. Qed.

Lemma total m first size ops : exists s, run m first size ops = Ok s.
Proof. destruct (reach m first size ops) as (s & c & H & _). eauto. Qed.

Lemma eof_fed_app a b : eof_fed (a ++ b) = eof_fed a || eof_fed b.
Proof. unfold eof_fed. apply existsb_app. Qed.

(* the decomposition of a run whose reader has finished Ok *)
Lemma finished_ok m first size ops s :
  run m first size ops = Ok s -> rd s = Done None ->
  exists pre post, ops = pre ++ Poll :: post /\ eof_fed pre = true /\
                   match m with MLoop => got s = fed_chunks first pre
                              | MAll => got s = [fed_bytes first pre] end.
Proof.
  intros H Hd. unfold run in H.
  destruct (first_done _ _ _ _ H (start_running m) Hd) as (pre & post & s1 & s2 & A & B & C & D & G & K).
  exists pre, post. split; [assumption|].
  destruct (reach_inv m first size pre s1 B) as (c & I & M).
  destruct (finish_ok _ _ _ _ _ _ I C D G) as (E1 & E2). split; [assumption|].
  rewrite M in E2. rewrite K. destruct m; exact E2.
Qed.

Lemma read_all_exact first size ops s :
  run MAll first size ops = Ok s -> rd s = Done None ->
  exists pre post, ops = pre ++ Poll :: post /\ eof_fed pre = true /\ got s = [fed_bytes first pre].
Proof. intros H Hd. exact (finished_ok MAll first size ops s H Hd). Qed.

Lemma no_feed_fed_ops l : existsb is_feed l = false -> fed_ops l = [].
Proof.
  induction l as [|o r IH]; [reflexivity|]. cbn [existsb fed_ops].
  destruct o; cbn [is_feed orb]; try discriminate; assumption.
Qed.

Lemma feeds_end_split a : forall b,
  feeds_end_at_eof (a ++ b) = true -> eof_fed a = true -> fed_ops b = [].
Proof.
  induction a as [|o r IH]; intros b H He; [discriminate|].
  destruct o; cbn [app feeds_end_at_eof] in H; unfold eof_fed in He; cbn [existsb is_feed_eof orb] in He;
    try (apply IH; assumption).
  apply andb_true_iff in H as (H & _). apply negb_true_iff in H. rewrite existsb_app in H.
  apply orb_false_iff in H as (_ & H). apply no_feed_fed_ops. assumption.
Qed.

Lemma fed_after_eof first pre post :
  feeds_end_at_eof (pre ++ post) = true -> eof_fed pre = true ->
  fed_chunks first (pre ++ post) = fed_chunks first pre.
Proof.
  intros H He. unfold fed_chunks. rewrite fed_ops_app, (feeds_end_split _ _ H He), app_nil_r. reflexivity.
Qed.

Lemma read_all_exact_dispatcher first size ops s :
  feeds_end_at_eof ops = true -> run MAll first size ops = Ok s -> rd s = Done None ->
  got s = [fed_bytes first ops].
Proof.
  intros Hf H Hd. destruct (read_all_exact _ _ _ _ H Hd) as (pre & post & -> & He & Hg).
  rewrite Hg. unfold fed_bytes. rewrite (fed_after_eof first pre (Poll :: post) Hf He). reflexivity.
Qed.

(* the last chunk and the eof may arrive before the reader's first poll (or between any two):
   with the eof in, no error set and the reader unfinished, one poll finishes read_all with every
   byte fed; only a payload into which nothing was ever put answers Consumed *)
Lemma last_run_none ops : forall last, last_run last ops = None -> last = None /\ existsb is_set_error ops = false.
Proof.
  induction ops as [|o r IH]; intros last H; cbn [last_run fold_left existsb] in *; [auto|].
  fold (last_run (last_step last o) r) in H. destruct (IH _ H) as (A & B).
  destruct o; cbn [last_step is_set_error orb] in *; try discriminate; auto.
Qed.

Lemma last_run_no_error ops : forall last, existsb is_set_error ops = false -> last_run last ops = last.
Proof.
  induction ops as [|o r IH]; intros last H; cbn [last_run fold_left existsb] in *; [reflexivity|].
  apply orb_false_iff in H as (H1 & H2). fold (last_run (last_step last o) r). rewrite (IH _ H2).
  destruct o; cbn [last_step is_set_error] in *; try discriminate; reflexivity.
Qed.

Lemma read_all_completes first size ops s :
  run MAll first size ops = Ok s -> eof_fed ops = true -> existsb is_set_error ops = false ->
  running (rd s) = true ->
  exists s', step s Poll = Ok s' /\
             ((rd s' = Done None /\ got s' = [fed_bytes first ops]) \/
              (rd s' = Done (Some E_CONSUMED) /\ fed_chunks first ops = [])).
Proof.
  intros H He Hn Hrun. destruct (reach_inv _ _ _ _ _ H) as (c & I & M).
  rewrite (last_run_no_error _ _ Hn) in I.
  assert (Ha : is_all (rd s) = true).
  { pose proof (i_content _ _ _ _ _ I) as C. unfold content in C. rewrite M in C.
    destruct (rd s); try contradiction; try reflexivity. discriminate. }
  destruct (content_all _ _ _ _ _ I Ha) as (_ & C1 & C2).
  destruct (poll_spec_all s c (i_pl _ _ _ _ _ I) (i_ok _ _ _ _ _ I) Ha) as (c0 & Hdr & P).
  eexists. split; [exact P|]. unfold all_out.
  destruct (i_err2 _ _ _ _ _ I eq_refl) as (E1 & E2). rewrite E1, E2.
  rewrite (i_eof2 _ _ _ _ _ I He). cbn [orb].
  destruct (fresh (rd s) && isnil (items c)) eqn:Hn'; proj.
  - right. split; [reflexivity|]. apply andb_fresh_nil in Hn' as (A & B). rewrite <- (C2 A). assumption.
  - left. split; [reflexivity|]. unfold fed_bytes. rewrite C1. reflexivity.
Qed.

Lemma read_loop_exact first size ops s :
  run MLoop first size ops = Ok s ->
  (exists rest, got s ++ rest = fed_chunks first ops) /\
  (rd s = Done None ->
   exists pre post, ops = pre ++ Poll :: post /\ eof_fed pre = true /\ got s = fed_chunks first pre).
Proof.
  intros H. split.
  - destruct (reach_inv _ _ _ _ _ H) as (c & I & M). exists (items c).
    pose proof (i_content _ _ _ _ _ I) as C. unfold content in C. rewrite M in C.
    destruct (rd s); try contradiction; exact C.
  - intros Hd. exact (finished_ok MLoop first size ops s H Hd).
Qed.

Lemma read_loop_bytes first size ops s :
  run MLoop first size ops = Ok s ->
  (exists rest, held s ++ rest = fed_bytes first ops) /\
  (rd s = Done None ->
   exists pre post, ops = pre ++ Poll :: post /\ eof_fed pre = true /\ held s = fed_bytes first pre).
Proof.
  intros H. destruct (read_loop_exact _ _ _ _ H) as ((rest & A) & B). split.
  - exists (concat rest). unfold held, fed_bytes. rewrite <- A, concat_app. reflexivity.
  - intros Hd. destruct (B Hd) as (pre & post & X & Y & Z). exists pre, post.
    split; [assumption|]. split; [assumption|]. unfold held, fed_bytes. rewrite Z. reflexivity.
Qed.

(* every poll of the read() loop with a chunk outstanding hands over exactly the next chunk *)
Lemma read_loop_next first size ops s d rest :
  run MLoop first size ops = Ok s -> running (rd s) = true ->
  fed_chunks first ops = got s ++ d :: rest ->
  exists s', step s Poll = Ok s' /\ got s' = got s ++ [d] /\ rd s' = LoopIdle.
Proof.
  intros H Hrun Hf. destruct (reach_inv _ _ _ _ _ H) as (c & I & M).
  assert (Hl : is_loop (rd s) = true).
  { pose proof (i_content _ _ _ _ _ I) as C. unfold content in C. rewrite M in C.
    destruct (rd s); try contradiction; try reflexivity. discriminate. }
  destruct (content_loop _ _ _ _ _ I Hl) as (_ & C).
  rewrite Hf in C. apply app_inv_head in C.
  pose proof (poll_spec_loop s c (i_pl _ _ _ _ _ I) (i_ok _ _ _ _ _ I) Hl) as P. rewrite C in P.
  destruct P as (c1 & _ & P). eexists. split; [exact P|]. proj. auto.
Qed.

Lemma no_finish_before_eof m first size ops s :
  run m first size ops = Ok s -> rd s = Done None -> eof_fed ops = true.
Proof.
  intros H Hd. destruct (finished_ok _ _ _ _ _ H Hd) as (pre & post & -> & He & _).
  rewrite eof_fed_app, He. reflexivity.
Qed.

Lemma last_run_app a b last : last_run last (a ++ b) = last_run (last_run last a) b.
Proof. unfold last_run. apply fold_left_app. Qed.

Lemma last_run_in ops : forall e x, last_run (Some e) ops = Some x -> In (SetError x) (SetError e :: ops).
Proof.
  induction ops as [|o r IH]; intros e x H; cbn [last_run fold_left] in H.
  - injection H as <-. left. reflexivity.
  - fold (last_run (last_step (Some e) o) r) in H. destruct o; cbn [last_step] in H;
      try (destruct (IH _ _ H) as [X|X]; [left; exact X|right; right; exact X]).
    destruct (IH _ _ H) as [X|X]; [right; left; exact X|right; right; exact X].
Qed.

Lemma last_run_some ops : forall e, last_run (Some e) ops <> None.
Proof.
  induction ops as [|o r IH]; intros e; cbn [last_run fold_left]; [discriminate|].
  fold (last_run (last_step (Some e) o) r). destruct o; cbn [last_step]; apply IH.
Qed.

Lemma error_observed m first size pre e post s0 s :
  run m first size pre = Ok s0 -> running (rd s0) = true ->
  run m first size (pre ++ SetError e :: post) = Ok s ->
  (running (rd s) = true \/ exists e', rd s = Done (Some e') /\ In (SetError e') (SetError e :: post)) /\
  (m = MAll -> existsb is_poll post = true -> running (rd s) = false).
Proof.
  intros H0 Hr0 H. unfold run in *. rewrite (run_from_app _ _ _ _ H0) in H. cbn [run_from] in H.
  destruct (step s0 (SetError e)) as [s1| |] eqn:E1; cbn [bind] in H; try discriminate.
  destruct (step_frame _ _ _ E1 eq_refl) as (F1 & _ & _).
  assert (Hr1 : running (rd s1) = true) by (rewrite F1; assumption).
  assert (R1 : run m first size (pre ++ [SetError e]) = Ok s1).
  { unfold run. rewrite (run_from_app _ _ _ _ H0). cbn [run_from]. rewrite E1. reflexivity. }
  assert (L1 : forall q, last_run None ((pre ++ [SetError e]) ++ q) = last_run (Some e) q).
  { intros q. rewrite !last_run_app. cbn [last_run fold_left last_step]. reflexivity. }
  split.
  - destruct (running (rd s)) eqn:Hr; [left; reflexivity|right].
    apply running_not_done in Hr as (x & Hx).
    destruct (first_done _ _ _ _ H Hr1 Hx) as (p & q & t1 & t2 & A & B & C & D & G & K).
    assert (Rt : run m first size ((pre ++ [SetError e]) ++ p) = Ok t1).
    { unfold run in *. rewrite (run_from_app _ _ _ _ R1). assumption. }
    destruct (reach_inv _ _ _ _ _ Rt) as (c & I & M). rewrite L1 in I.
    pose proof (finish_err _ _ _ _ _ _ _ I (last_run_some p e) C D G) as Hx'.
    destruct x as [e'|]; [|exfalso; exact (last_run_some p e (eq_sym Hx'))].
    exists e'. split; [assumption|]. symmetry in Hx'. apply last_run_in in Hx'.
    subst post. destruct Hx' as [X|X]; [left; exact X|right]. apply in_or_app. left. assumption.
  - intros -> Hp. destruct (running (rd s)) eqn:Hr; [|reflexivity]. exfalso.
    (* the first poll after the error finishes the reader *)
    clear H0 Hr0 E1 F1.
    assert (G : forall q t, run MAll first size ((pre ++ [SetError e]) ++ q) = Ok t ->
                existsb is_poll q = true -> running (rd t) = false).
    { intros q. induction q as [|o q IH] using rev_ind; intros t Ht Hq; [discriminate|].
      rewrite existsb_app in Hq. cbn [existsb] in Hq. rewrite orb_false_r in Hq.
      rewrite app_assoc in Ht. unfold run in Ht.
      destruct (total MAll first size ((pre ++ [SetError e]) ++ q)) as (t0 & Ht0).
      unfold run in Ht0. rewrite (run_from_app _ _ _ _ Ht0) in Ht. cbn [run_from] in Ht.
      destruct (step t0 o) as [t1| |] eqn:Eo; cbn [bind] in Ht; try discriminate. injection Ht as <-.
      destruct (running (rd t0)) eqn:Hrt.
      - destruct (is_poll o) eqn:Ho.
        + destruct o; try discriminate.
          destruct (reach_inv _ _ _ _ _ Ht0) as (c & I & M). rewrite L1 in I.
          assert (Ha : is_all (rd t0) = true).
          { pose proof (i_content _ _ _ _ _ I) as C. unfold content in C. rewrite M in C.
            destruct (rd t0); try contradiction; try reflexivity. discriminate. }
          exact (poll_all_err _ _ _ _ _ _ I (last_run_some q e) Ha Eo).
        + apply orb_true_iff in Hq as [Hq|Hq]; [|discriminate].
          specialize (IH _ Ht0 Hq). congruence.
      - apply running_not_done in Hrt as (y & Hy).
        destruct (step_done _ _ _ _ Hy Eo) as (A & _). rewrite A. reflexivity. }
    assert (Rs : run MAll first size ((pre ++ [SetError e]) ++ post) = Ok s).
    { unfold run in *. rewrite (run_from_app _ _ _ _ R1). assumption. }
    specialize (G _ _ Rs Hp). congruence.
Qed.

Lemma no_lost_wake m first size ops s c :
  run m first size ops = Ok s -> chan_of s = Some c -> borrowed (rd s) = true ->
  can_progress c = true -> woken s = true.
Proof.
  intros H Hc Hb Hp. destruct (reach_inv _ _ _ _ _ H) as (c' & I & _).
  unfold chan_of in Hc. rewrite (i_pl _ _ _ _ _ I) in Hc. injection Hc as <-.
  destruct (i_wake _ _ _ _ _ I Hb) as [X|(_ & X)]; [assumption|congruence].
Qed.

(* `len` is the number of buffered bytes in every reachable state (hence `len - data.len()` in
   get_data does not underflow) *)
Lemma len_counts m first size ops s c :
  run m first size ops = Ok s -> chan_of s = Some c -> ch_len c = sum_len (items c).
Proof.
  intros H Hc. destruct (reach_inv _ _ _ _ _ H) as (c' & I & _).
  unfold chan_of in Hc. rewrite (i_pl _ _ _ _ _ I) in Hc. injection Hc as <-. apply I.
Qed.

(* ------------------------------------------------------------------ Payload::from_bytes *)
(* (payload, what the handler holds, reader) after n polls *)
Definition fix_shape (buf : bytes) (m : mode) (n : nat) : payload * list bytes * rstate :=
  match n, m with
  | O, _ => (PFixed (Some buf), [], start_of m)
  | S O, MLoop => (PFixed None, [buf], LoopIdle)
  | _, _ => (PFixed None, [buf], Done None)
  end.
Definition FixInv (buf : bytes) (n : nat) (s : st) : Prop := (pl s, got s, rd s) = fix_shape buf (md s) n.

Lemma fix_step buf n s o :
  FixInv buf n s ->
  exists s', step s o = Ok s' /\ FixInv buf (n + (if is_poll o then 1 else 0)) s' /\ md s' = md s.
Proof.
  destruct s as [m p r g w]. unfold FixInv. cbn [pl got rd md]. intros H.
  destruct n as [|[|n]], m; cbn [fix_shape start_of] in H; injection H as -> -> ->; destruct o;
    (eexists; split; [reflexivity|]; split; [|reflexivity]); reflexivity.
Qed.

Lemma polls_cons o r : polls (o :: r) = ((if is_poll o then 1 else 0) + polls r)%nat.
Proof. unfold polls. cbn [filter]. destruct (is_poll o); reflexivity. Qed.

Lemma fix_run buf ops : forall n s,
  FixInv buf n s -> exists s', run_from s ops = Ok s' /\ FixInv buf (n + polls ops) s' /\ md s' = md s.
Proof.
  induction ops as [|o r IH]; intros n s I.
  - exists s. cbn [run_from]. unfold polls. cbn [filter length]. replace (n + 0)%nat with n by lia. auto.
  - destruct (fix_step _ _ _ o I) as (s1 & H1 & I1 & M1).
    destruct (IH _ _ I1) as (s2 & H2 & I2 & M2).
    exists s2. cbn [run_from]. rewrite H1. cbn [bind]. split; [assumption|]. split; [|congruence].
    rewrite polls_cons. replace (n + ((if is_poll o then 1 else 0) + polls r))%nat with (n + (if is_poll o then 1 else 0) + polls r)%nat by lia. assumption.
Qed.

Lemma fixed_exact m buf ops :
  exists s, run_from (init_fixed m buf) ops = Ok s /\ md s = m /\
            match polls ops, m with
            | O, _ => got s = [] /\ rd s = start_of m
            | S O, MLoop => got s = [buf] /\ rd s = LoopIdle
            | _, _ => got s = [buf] /\ rd s = Done None
            end.
Proof.
  assert (I0 : FixInv buf 0 (init_fixed m buf)) by reflexivity.
  destruct (fix_run buf ops 0%nat _ I0) as (s & H & I & M). cbn [Nat.add] in I.
  exists s. split; [assumption|]. cbn [init_fixed md] in M. split; [assumption|].
  unfold FixInv in I. rewrite M in I.
  destruct (polls ops) as [|[|n]], m; cbn [fix_shape] in I; injection I as _ -> ->; auto.
Qed.
