(* Proofs/CodecV5Size.v -- property C09 for the MQTT 5 encoder model: the Remaining Length written is
   the size the library computed and is the number of bytes that follow; limits; no panic. *)
From Coq Require Import ZArith ZifyN ZifyBool Lia.
From MV Require Import Base.Prelude Base.Res Base.VarInt Base.Utf8 Model.CodecV5
  Proofs.VarIntProofs Proofs.CodecV5Fields.
Ltac Zify.zify_post_hook ::= Z.div_mod_to_equations.

(* ------------------------------------------------------------------ more structural automation *)
Lemma wlen_prop_u16 v pt : wlen (w_prop w_u16 v pt) (eps sz2 v).
Proof. apply wlen_prop. exact wlen_sz2_u16. Qed.
Lemma wlen_prop_u32 v pt : wlen (w_prop w_u32 v pt) (eps sz4 v).
Proof. apply wlen_prop. exact wlen_sz4_u32. Qed.
Lemma wlen_prop_bool v pt : wlen (w_prop w_bool v pt) (eps sz1 v).
Proof. apply wlen_prop. exact wlen_sz1_bool. Qed.
Lemma wlen_prop_bytes v pt : wlen (w_prop w_bytes v pt) (eps es_bytes v).
Proof. apply wlen_prop. exact wlen_bytes. Qed.
Lemma wlen_propd_u16 d v pt : wlen (w_prop_default w_u16 d v pt) (eps_default sz2 d v).
Proof. apply wlen_prop_default. exact wlen_sz2_u16. Qed.
Lemma wlen_propd_u32 d v pt : wlen (w_prop_default w_u32 d v pt) (eps_default sz4 d v).
Proof. apply wlen_prop_default. exact wlen_sz4_u32. Qed.
Lemma wlen_propd_bool d v pt : wlen (w_prop_default w_bool d v pt) (eps_default sz1 d v).
Proof. apply wlen_prop_default. exact wlen_sz1_bool. Qed.

Ltac wlen_struct ::=
  lazymatch goal with
  | |- wlen (wseq _ (fun _ => _)) _ => eapply wlen_then; [wlen_struct | wlen_struct]
  | |- wlen (w_u8 _) _ => apply wlen_u8
  | |- wlen (w_bool _) _ => apply wlen_bool
  | |- wlen (w_u16 _) _ => apply wlen_u16
  | |- wlen (w_u32 _) _ => apply wlen_u32
  | |- wlen (w_bytes _) _ => apply wlen_bytes
  | |- wlen (w_uprop _) _ => apply wlen_uprop
  | |- wlen (w_uprops _) _ => apply wlen_uprops
  | |- wlen (w_sub_ids _) _ => apply wlen_sub_ids
  | |- wlen (w_sub_filters _) _ => apply wlen_sub_filters
  | |- wlen (w_unsub_filters _) _ => apply wlen_unsub_filters
  | |- wlen (w_vi _) _ => apply wlen_vi
  | |- wlen (w_prop w_u16 _ _) _ => apply wlen_prop_u16
  | |- wlen (w_prop w_u32 _ _) _ => apply wlen_prop_u32
  | |- wlen (w_prop w_bool _ _) _ => apply wlen_prop_bool
  | |- wlen (w_prop w_bytes _ _) _ => apply wlen_prop_bytes
  | |- wlen (w_prop_default w_u16 _ _ _) _ => apply wlen_propd_u16
  | |- wlen (w_prop_default w_u32 _ _ _) _ => apply wlen_propd_u32
  | |- wlen (w_prop_default w_bool _ _ _) _ => apply wlen_propd_bool
  | |- wlen (wput _) _ => apply wlen_put
  | |- wlen wnop _ => apply wlen_nop
  | |- wlen (match ?o with Some _ => _ | None => _ end) _ =>
      instantiate (1 := match o with Some _ => _ | None => _ end); destruct o; wlen_struct
  | |- wlen (if ?c then _ else _) _ =>
      instantiate (1 := if c then _ else _); destruct c; wlen_struct
  | |- _ => eassumption
  end.

Ltac wnp_struct :=
  lazymatch goal with
  | |- wnp (wseq _ (fun _ => _)) => apply wnp_then; [wnp_struct | wnp_struct]
  | |- wnp (w_u8 _) => exact I
  | |- wnp (w_bool _) => exact I
  | |- wnp (w_u16 _) => exact I
  | |- wnp (w_u32 _) => exact I
  | |- wnp (wput _) => exact I
  | |- wnp wnop => exact I
  | |- wnp (wfail _) => exact I
  | |- wnp (w_bytes _) => apply wnp_bytes
  | |- wnp (w_uprop _) => apply wnp_uprop
  | |- wnp (w_uprops _) => apply wnp_uprops
  | |- wnp (w_sub_filters _) => apply wnp_sub_filters
  | |- wnp (w_unsub_filters _) => apply wnp_unsub_filters
  | |- wnp (w_prop _ _ _) => apply wnp_prop; intro; wnp_struct
  | |- wnp (w_prop_default _ _ _ _) => apply wnp_prop_default; intro; wnp_struct
  | |- wnp (match ?o with Some _ => _ | None => _ end) => destruct o; wnp_struct
  | |- wnp (if ?c then _ else _) => destruct c; wnp_struct
  | |- _ => idtac
  end.

Lemma reduce_limit_le lim r : reduce_limit lim r <= lim.
Proof. unfold reduce_limit. destruct (lim <? r) eqn:E; lia. Qed.

Lemma mod32_small n : n <= VI_MAX -> n mod TWO32 = n.
Proof. unfold VI_MAX, TWO32. intros. apply N.mod_small. lia. Qed.

(* ------------------------------------------------------------------ PUBACK family *)
Lemma publish_ack_len a lim : lim <= VI_MAX ->
  wlen (publish_ack_encode a (publish_ack_encoded_size a lim)) (publish_ack_encoded_size a lim).
Proof.
  intros Hl. unfold publish_ack_encode, publish_ack_encoded_size.
  set (S := ack_props_encoded_size _ _ _). rewrite sub_chk_ok by lia. cbn [wlet].
  replace (3 + S - 3) with S by lia.
  pose proof (ack_props_len (pa_properties a) (pa_reason_string a) (reduce_limit lim (3 + 4))) as H.
  pose proof (reduce_limit_le lim (3 + 4)). specialize (H ltac:(lia)). fold S in H.
  wlen_tac.
Qed.
Lemma publish_ack_np a lim : lim <= VI_MAX ->
  wnp (publish_ack_encode a (publish_ack_encoded_size a lim)).
Proof.
  intros Hl. unfold publish_ack_encode, publish_ack_encoded_size.
  set (S := ack_props_encoded_size _ _ _). rewrite sub_chk_ok by lia. cbn [wlet].
  replace (3 + S - 3) with S by lia. wnp_struct.
  pose proof (reduce_limit_le lim (3 + 4)). apply ack_props_np. lia.
Qed.
Lemma publish_ack2_len a lim : lim <= VI_MAX ->
  wlen (publish_ack2_encode a (publish_ack2_encoded_size a lim)) (publish_ack2_encoded_size a lim).
Proof.
  intros Hl. unfold publish_ack2_encode, publish_ack2_encoded_size.
  set (S := ack_props_encoded_size _ _ _). rewrite sub_chk_ok by lia. cbn [wlet].
  replace (3 + S - 3) with S by lia.
  pose proof (ack_props_len (pa2_properties a) (pa2_reason_string a) (reduce_limit lim (3 + 4))) as H.
  pose proof (reduce_limit_le lim (3 + 4)). specialize (H ltac:(lia)). fold S in H.
  wlen_tac.
Qed.
Lemma publish_ack2_np a lim : lim <= VI_MAX ->
  wnp (publish_ack2_encode a (publish_ack2_encoded_size a lim)).
Proof.
  intros Hl. unfold publish_ack2_encode, publish_ack2_encoded_size.
  set (S := ack_props_encoded_size _ _ _). rewrite sub_chk_ok by lia. cbn [wlet].
  replace (3 + S - 3) with S by lia. wnp_struct.
  pose proof (reduce_limit_le lim (3 + 4)). apply ack_props_np. lia.
Qed.

(* ------------------------------------------------------------------ SUBACK / UNSUBACK *)
Lemma subscribe_ack_len a lim : lim <= VI_MAX -> subscribe_ack_encoded_size a lim <= lim ->
  wlen (subscribe_ack_encode a (subscribe_ack_encoded_size a lim)) (subscribe_ack_encoded_size a lim).
Proof.
  intros Hl. unfold subscribe_ack_encode, subscribe_ack_encoded_size.
  destruct (U32MAX - 2 <? len (sa_status a)) eqn:E. { unfold USIZE_MAX, U64MAX, VI_MAX in *. lia. }
  set (S := ack_props_encoded_size _ _ _). intros Hs.
  rewrite sub_chk_ok by lia. cbn [wlet].
  rewrite mod32_small by lia. rewrite sub_chk_ok by lia. cbn [wlet].
  replace (2 + S + len (sa_status a) - 2 - len (sa_status a)) with S by lia.
  pose proof (ack_props_len (sa_properties a) (sa_reason_string a) (reduce_limit lim (2 + len (sa_status a)))) as H.
  pose proof (reduce_limit_le lim (2 + len (sa_status a))). specialize (H ltac:(lia)). fold S in H.
  wlen_tac.
Qed.
Lemma subscribe_ack_np a lim : lim <= VI_MAX -> subscribe_ack_encoded_size a lim <= lim ->
  wnp (subscribe_ack_encode a (subscribe_ack_encoded_size a lim)).
Proof.
  intros Hl. unfold subscribe_ack_encode, subscribe_ack_encoded_size.
  destruct (U32MAX - 2 <? len (sa_status a)) eqn:E. { unfold USIZE_MAX, U64MAX, VI_MAX in *. lia. }
  set (S := ack_props_encoded_size _ _ _). intros Hs.
  rewrite sub_chk_ok by lia. cbn [wlet].
  rewrite mod32_small by lia. rewrite sub_chk_ok by lia. cbn [wlet].
  replace (2 + S + len (sa_status a) - 2 - len (sa_status a)) with S by lia.
  wnp_struct. pose proof (reduce_limit_le lim (2 + len (sa_status a))). apply ack_props_np. lia.
Qed.
Lemma unsubscribe_ack_len a lim : lim <= VI_MAX -> unsubscribe_ack_encoded_size a lim <= lim ->
  wlen (unsubscribe_ack_encode a (unsubscribe_ack_encoded_size a lim)) (unsubscribe_ack_encoded_size a lim).
Proof.
  intros Hl. unfold unsubscribe_ack_encode, unsubscribe_ack_encoded_size.
  set (S := ack_props_encoded_size _ _ _). intros Hs.
  rewrite sub_chk_ok by lia. cbn [wlet].
  rewrite mod32_small by lia. rewrite sub_chk_ok by lia. cbn [wlet].
  replace (2 + len (ua_status a) + S - 2 - len (ua_status a)) with S by lia.
  pose proof (ack_props_len (ua_properties a) (ua_reason_string a) (reduce_limit lim (2 + len (ua_status a)))) as H.
  pose proof (reduce_limit_le lim (2 + len (ua_status a))). specialize (H ltac:(lia)). fold S in H.
  wlen_tac.
Qed.
Lemma unsubscribe_ack_np a lim : lim <= VI_MAX -> unsubscribe_ack_encoded_size a lim <= lim ->
  wnp (unsubscribe_ack_encode a (unsubscribe_ack_encoded_size a lim)).
Proof.
  intros Hl. unfold unsubscribe_ack_encode, unsubscribe_ack_encoded_size.
  set (S := ack_props_encoded_size _ _ _). intros Hs.
  rewrite sub_chk_ok by lia. cbn [wlet].
  rewrite mod32_small by lia. rewrite sub_chk_ok by lia. cbn [wlet].
  replace (2 + len (ua_status a) + S - 2 - len (ua_status a)) with S by lia.
  wnp_struct. pose proof (reduce_limit_le lim (2 + len (ua_status a))). apply ack_props_np. lia.
Qed.

(* ------------------------------------------------------------------ packets with a fixed part followed by
   optional diagnostics: DISCONNECT, AUTH, CONNACK.  Generic shape:
     wseq (head >>> wlet (sub_chk size h) (fun s => wlet (vilfs s) (fun pl => w_vi pl >>> fixed)))
          (fun written => wlet (sub_chk size (len written mod 2^32)) (eop ups reason))          *)
Section Diag.
  Variables (head fixed : wr) (h pl1 lim' : N) (ups : uprops) (reason : option bytes).
  Hypothesis Hhead : wlen head h.
  Hypothesis Hfixed : wlen fixed pl1.
  Let D := encoded_size_opt_props ups reason lim'.
  Let PL := pl1 + D.
  Let size := h + var_int_len PL + PL.
  Definition diag_encode (sz : N) : wr :=
    wseq (head >>> wlet (sub_chk sz h) (fun s => wlet (var_int_len_from_size s) (fun pl => w_vi pl >>> fixed)))
         (fun written => wlet (sub_chk sz (len written mod TWO32)) (fun rest => encode_opt_props ups reason rest)).

  Lemma diag_len : size <= VI_MAX -> wlen (diag_encode size) size.
  Proof.
    intros Hs. unfold diag_encode.
    pose proof (eq_refl : PL = pl1 + D) as HPL. pose proof (eq_refl : size = h + var_int_len PL + PL) as Hsz.
    pose proof (var_int_len_pos PL).
    assert (E1 : sub_chk size h = Ok (var_int_len PL + PL)).
    { rewrite sub_chk_ok by lia. f_equal. lia. }
    rewrite E1. cbn [wlet]. rewrite varlen_inverse' by lia. cbn [wlet].
    eapply wlen_eq.
    - eapply wlen_seq.
      + wlen_struct.
      + intros x Hx.
        assert (Hlx : len x = h + (var_int_len PL + pl1)).
        { revert x Hx. change (wlen (head >>> w_vi PL >>> fixed) (h + (var_int_len PL + pl1))). wlen_tac. }
        rewrite Hlx. rewrite mod32_small by lia.
        rewrite sub_chk_ok by lia. cbn [wlet].
        replace (size - (h + (var_int_len PL + pl1))) with D by lia.
        apply eop_len.
    - lia.
  Qed.

  Hypothesis Hheadnp : wnp head.
  Hypothesis Hfixednp : wnp fixed.
  Lemma diag_np : size <= VI_MAX -> wnp (diag_encode size).
  Proof.
    intros Hs. unfold diag_encode.
    pose proof (eq_refl : PL = pl1 + D) as HPL. pose proof (eq_refl : size = h + var_int_len PL + PL) as Hsz.
    pose proof (var_int_len_pos PL).
    assert (E1 : sub_chk size h = Ok (var_int_len PL + PL)).
    { rewrite sub_chk_ok by lia. f_equal. lia. }
    rewrite E1. cbn [wlet]. rewrite varlen_inverse' by lia. cbn [wlet].
    apply wnp_seq.
    - wnp_struct; try assumption. apply wnp_vi. lia.
    - intros x Hx.
      assert (Hlx : len x = h + (var_int_len PL + pl1)).
      { revert x Hx. change (wlen (head >>> w_vi PL >>> fixed) (h + (var_int_len PL + pl1))). wlen_tac. }
      rewrite Hlx. rewrite mod32_small by lia.
      rewrite sub_chk_ok by lia. cbn [wlet]. apply eop_np.
  Qed.
End Diag.

Lemma disconnect_is_diag d sz :
  disconnect_encode d sz =
  diag_encode (w_u8 (d_reason_code d))
    (w_prop w_u32 (d_session_expiry_interval_secs d) P_SESS_EXPIRY_INT >>>
     w_prop w_bytes (d_server_reference d) P_SERVER_REF) 1 (d_user_properties d) (d_reason_string d) sz.
Proof. reflexivity. Qed.

Lemma disconnect_len d lim : disconnect_encoded_size d lim <= VI_MAX ->
  wlen (disconnect_encode d (disconnect_encoded_size d lim)) (disconnect_encoded_size d lim).
Proof.
  intros Hs. rewrite disconnect_is_diag. unfold disconnect_encoded_size in *.
  apply diag_len; [apply wlen_u8| |exact Hs]. wlen_tac.
Qed.
Lemma disconnect_np d lim : disconnect_encoded_size d lim <= VI_MAX ->
  wnp (disconnect_encode d (disconnect_encoded_size d lim)).
Proof.
  intros Hs. rewrite disconnect_is_diag. unfold disconnect_encoded_size in *.
  eapply diag_np; [apply wlen_u8| | | |exact Hs]; [wlen_tac|wnp_struct|wnp_struct].
Qed.

Lemma auth_is_diag a sz :
  auth_encode a sz =
  diag_encode (w_u8 (a_reason_code a))
    (w_prop w_bytes (a_auth_method a) P_AUTH_METHOD >>> w_prop w_bytes (a_auth_data a) P_AUTH_DATA)
    1 (a_user_properties a) (a_reason_string a) sz.
Proof. reflexivity. Qed.

Lemma auth_len a lim : auth_encoded_size a lim <= VI_MAX ->
  wlen (auth_encode a (auth_encoded_size a lim)) (auth_encoded_size a lim).
Proof.
  intros Hs. rewrite auth_is_diag. unfold auth_encoded_size in *.
  apply diag_len; [apply wlen_u8| |exact Hs]. wlen_tac.
Qed.
Lemma auth_np a lim : auth_encoded_size a lim <= VI_MAX ->
  wnp (auth_encode a (auth_encoded_size a lim)).
Proof.
  intros Hs. rewrite auth_is_diag. unfold auth_encoded_size in *.
  eapply diag_np; [apply wlen_u8| | | |exact Hs]; [wlen_tac|wnp_struct|wnp_struct].
Qed.

Definition connect_ack_fixed (a : connect_ack) : wr :=
  w_prop w_u32 (ca_session_expiry_interval_secs a) P_SESS_EXPIRY_INT >>>
  w_prop_default w_u16 (ca_receive_max a =? RECEIVE_MAX_DEFAULT) (ca_receive_max a) P_RECEIVE_MAX >>>
  (if ca_max_qos a <? 2 then wput [P_MAX_QOS; ca_max_qos a] else wnop) >>>
  w_prop_default w_bool (Bool.eqb (ca_retain_available a) true) (ca_retain_available a) P_RETAIN_AVAIL >>>
  w_prop w_u32 (ca_max_packet_size a) P_MAX_PACKET_SIZE >>>
  w_prop w_bytes (ca_assigned_client_id a) P_ASSND_CLIENT_ID >>>
  w_prop_default w_u16 (ca_topic_alias_max a =? 0) (ca_topic_alias_max a) P_TOPIC_ALIAS_MAX >>>
  w_prop_default w_bool (Bool.eqb (ca_wildcard_subscription_available a) true)
                 (ca_wildcard_subscription_available a) P_WILDCARD_SUB_AVAIL >>>
  w_prop_default w_bool (Bool.eqb (ca_subscription_identifiers_available a) true)
                 (ca_subscription_identifiers_available a) P_SUB_IDS_AVAIL >>>
  w_prop_default w_bool (Bool.eqb (ca_shared_subscription_available a) true)
                 (ca_shared_subscription_available a) P_SHARED_SUB_AVAIL >>>
  w_prop w_u16 (ca_server_keepalive_sec a) P_SERVER_KA >>>
  w_prop w_bytes (ca_response_info a) P_RESP_INFO >>>
  w_prop w_bytes (ca_server_reference a) P_SERVER_REF >>>
  w_prop w_bytes (ca_auth_method a) P_AUTH_METHOD >>>
  w_prop w_bytes (ca_auth_data a) P_AUTH_DATA.

Definition connect_ack_fixed_len (a : connect_ack) : N :=
  let prop_len0 :=
    eps sz4 (ca_session_expiry_interval_secs a)
    + eps_default sz2 (ca_receive_max a =? RECEIVE_MAX_DEFAULT) (ca_receive_max a)
    + (if ca_max_qos a <? 2 then 1 + 1 else 0)
    + eps sz4 (ca_max_packet_size a)
    + eps es_bytes (ca_assigned_client_id a)
    + eps_default sz1 (Bool.eqb (ca_retain_available a) true) (ca_retain_available a)
    + eps_default sz1 (Bool.eqb (ca_wildcard_subscription_available a) true) (ca_wildcard_subscription_available a)
    + eps_default sz1 (Bool.eqb (ca_subscription_identifiers_available a) true)
                  (ca_subscription_identifiers_available a)
    + eps_default sz1 (Bool.eqb (ca_shared_subscription_available a) true) (ca_shared_subscription_available a)
    + eps sz2 (ca_server_keepalive_sec a)
    + eps es_bytes (ca_response_info a)
    + eps es_bytes (ca_server_reference a)
    + eps es_bytes (ca_auth_method a)
    + eps es_bytes (ca_auth_data a) in
  if 0 <? ca_topic_alias_max a then prop_len0 + (1 + 2) else prop_len0.

Lemma connect_ack_is_diag a sz :
  connect_ack_encode a sz =
  diag_encode (wput [b2n (ca_session_present a); ca_reason_code a]) (connect_ack_fixed a) 2
    (ca_user_properties a) (ca_reason_string a) sz.
Proof. reflexivity. Qed.

Lemma connect_ack_size_eq a lim :
  connect_ack_encoded_size a lim =
  let pl1 := connect_ack_fixed_len a in
  let D := encoded_size_opt_props (ca_user_properties a) (ca_reason_string a) (reduce_limit lim (2 + 4 + pl1)) in
  2 + var_int_len (pl1 + D) + (pl1 + D).
Proof. reflexivity. Qed.

Lemma connect_ack_fixed_wlen a : wlen (connect_ack_fixed a) (connect_ack_fixed_len a).
Proof.
  unfold connect_ack_fixed, connect_ack_fixed_len.
  eapply wlen_eq; [wlen_struct|].
  unfold eps_default at 3. unfold sz2 at 2.
  destruct (ca_max_qos a <? 2); destruct (ca_topic_alias_max a =? 0) eqn:E;
    destruct (0 <? ca_topic_alias_max a) eqn:E'; try lia; autorewrite with len; lia.
Qed.

Lemma connect_ack_fixed_wnp a : wnp (connect_ack_fixed a).
Proof. unfold connect_ack_fixed. wnp_struct. Qed.

Lemma connect_ack_len a lim : connect_ack_encoded_size a lim <= VI_MAX ->
  wlen (connect_ack_encode a (connect_ack_encoded_size a lim)) (connect_ack_encoded_size a lim).
Proof.
  intros Hs. rewrite connect_ack_is_diag. rewrite connect_ack_size_eq in *. cbv zeta in *.
  apply diag_len; [apply wlen_put|apply connect_ack_fixed_wlen|exact Hs].
Qed.
Lemma connect_ack_np a lim : connect_ack_encoded_size a lim <= VI_MAX ->
  wnp (connect_ack_encode a (connect_ack_encoded_size a lim)).
Proof.
  intros Hs. rewrite connect_ack_is_diag. rewrite connect_ack_size_eq in *. cbv zeta in *.
  eapply diag_np; [apply wlen_put|apply connect_ack_fixed_wlen|exact I|apply connect_ack_fixed_wnp|exact Hs].
Qed.

(* ------------------------------------------------------------------ SUBSCRIBE / UNSUBSCRIBE *)
Lemma wlen_opt_sub_id o :
  wlen (match o with Some id => w_sub_id id | None => wnop end)
       (match o with Some v => 1 + var_int_len v | None => 0 end).
Proof. destruct o; [apply wlen_sub_id|apply wlen_nop]. Qed.

Lemma subscribe_len s lim sz : subscribe_encoded_size s lim <= VI_MAX ->
  wlen (subscribe_encode s sz) (subscribe_encoded_size s lim).
Proof.
  unfold subscribe_encode, subscribe_encoded_size. set (PL := subscribe_prop_len s). intros Hs.
  rewrite mod32_small by lia.
  eapply wlen_eq;
    [eapply wlen_then; [apply wlen_u16|eapply wlen_then; [apply wlen_vi|
       eapply wlen_then; [apply wlen_opt_sub_id|wlen_struct]]]|].
  unfold PL, subscribe_prop_len. lia.
Qed.
Lemma subscribe_np s lim sz : subscribe_encoded_size s lim <= VI_MAX -> wnp (subscribe_encode s sz).
Proof.
  unfold subscribe_encode, subscribe_encoded_size. set (PL := subscribe_prop_len s). intros Hs.
  rewrite mod32_small by lia. wnp_struct; try apply wnp_sub_id. apply wnp_vi. lia.
Qed.

Lemma unsubscribe_len u lim sz : unsubscribe_encoded_size u lim <= VI_MAX ->
  wlen (unsubscribe_encode u sz) (unsubscribe_encoded_size u lim).
Proof.
  unfold unsubscribe_encode, unsubscribe_encoded_size. intros Hs. rewrite mod32_small by lia. wlen_tac.
Qed.
Lemma unsubscribe_np u lim sz : unsubscribe_encoded_size u lim <= VI_MAX -> wnp (unsubscribe_encode u sz).
Proof.
  unfold unsubscribe_encode, unsubscribe_encoded_size. intros Hs. rewrite mod32_small by lia.
  wnp_struct. apply wnp_vi. lia.
Qed.

(* ------------------------------------------------------------------ CONNECT *)
Lemma es_bytes_MQTT : es_bytes MQTT = 6.
Proof. reflexivity. Qed.

Lemma connect_len c lim sz : connect_encoded_size c lim <= VI_MAX ->
  wlen (connect_encode c sz) (connect_encoded_size c lim).
Proof.
  unfold connect_encode, connect_encoded_size. cbv zeta.
  destruct (c_last_will c) as [w|]; destruct (c_username c) as [u|]; destruct (c_password c) as [pw|];
    intros Hs; rewrite !mod32_small by lia;
    (eapply wlen_eq; [wlen_struct|]); rewrite es_bytes_MQTT; unfold connect_properties_len, will_properties_len;
    autorewrite with len; lia.
Qed.
Lemma connect_np c lim sz : connect_encoded_size c lim <= VI_MAX -> wnp (connect_encode c sz).
Proof.
  unfold connect_encode, connect_encoded_size. cbv zeta.
  destruct (c_last_will c) as [w|]; destruct (c_username c) as [u|]; destruct (c_password c) as [pw|];
    intros Hs; rewrite !mod32_small by lia; wnp_struct; apply wnp_vi; lia.
Qed.

(* ------------------------------------------------------------------ PUBLISH *)
Definition publish_props_len (p : publish_properties) : N :=
  eps sz2 (pp_topic_alias p)
  + eps es_bytes (pp_correlation_data p)
  + eps sz4 (pp_message_expiry_interval p)
  + eps es_bytes (pp_content_type p)
  + eps_default sz1 (Bool.eqb (pp_is_utf8_payload p) false) (pp_is_utf8_payload p)
  + eps es_bytes (pp_response_topic p)
  + sub_ids_size (pp_subscription_ids p)
  + es_uprops (pp_user_properties p).

Lemma ppes_eq p lim :
  publish_properties_encoded_size p lim = publish_props_len p + var_int_len (publish_props_len p).
Proof. reflexivity. Qed.

Lemma publish_properties_len p lim : publish_props_len p <= VI_MAX ->
  wlen (publish_properties_encode p (publish_properties_encoded_size p lim))
       (publish_properties_encoded_size p lim).
Proof.
  intros Hs. rewrite ppes_eq. unfold publish_properties_encode.
  rewrite varlen_inverse by lia. cbn [wlet].
  eapply wlen_eq; [wlen_struct|]. unfold publish_props_len. lia.
Qed.
Lemma publish_properties_np p lim : publish_props_len p <= VI_MAX ->
  wnp (publish_properties_encode p (publish_properties_encoded_size p lim)).
Proof.
  intros Hs. rewrite ppes_eq. unfold publish_properties_encode.
  rewrite varlen_inverse by lia. cbn [wlet]. wnp_struct; [apply wnp_vi; lia|apply wnp_sub_ids].
Qed.

Definition publish_first_byte (p : publish) : N :=
  PT_PUBLISH_START + p_qos p * 2 + b2n (p_dup p) * 8 + b2n (p_retain p).

Definition publish_hdr (p : publish) : wr :=
  w_bytes (p_topic p) >>>
  (if p_qos p =? 0 then
     match p_packet_id p with Some _ => wfail EE_MalformedPacket | None => wnop end
   else
     match p_packet_id p with None => wfail EE_PacketIdRequired | Some id => w_u16 id end).

Lemma publish_hdr_len p : wlen (publish_hdr p) (es_bytes (p_topic p) + (if p_qos p =? 0 then 0 else 2)).
Proof.
  unfold publish_hdr. apply wlen_then; [apply wlen_bytes|].
  destruct (p_qos p =? 0); destruct (p_packet_id p); try apply wlen_fail; [apply wlen_nop|apply wlen_u16].
Qed.
Lemma publish_hdr_np p : wnp (publish_hdr p).
Proof. unfold publish_hdr. wnp_struct. Qed.

Lemma publish_encode_eq p size :
  publish_encode p size =
  w_u8 (publish_first_byte p) >>> w_vi size >>>
  wseq (publish_hdr p) (fun hdr =>
    wlet (sub_chk size ((len hdr + p_payload_size p) mod TWO32)) (fun psize =>
      publish_properties_encode (p_properties p) psize)).
Proof. reflexivity. Qed.

Lemma publish_size_props_le p lim : publish_props_len (p_properties p) <= publish_encoded_size p lim.
Proof. unfold publish_encoded_size. rewrite ppes_eq. lia. Qed.

(* body of a publish frame: topic, packet id, properties (the payload follows) *)
Definition publish_body (p : publish) (size : N) : wr :=
  wseq (publish_hdr p) (fun hdr =>
    wlet (sub_chk size ((len hdr + p_payload_size p) mod TWO32)) (fun psize =>
      publish_properties_encode (p_properties p) psize)).

Lemma publish_body_len p lim : publish_encoded_size p lim <= VI_MAX ->
  wlen (publish_body p (publish_encoded_size p lim)) (publish_encoded_size p lim - p_payload_size p).
Proof.
  intros Hs. pose proof (publish_size_props_le p lim) as Hp. unfold publish_body.
  eapply wlen_eq.
  - eapply wlen_seq; [apply publish_hdr_len|]. intros x Hx.
    rewrite (publish_hdr_len p _ Hx).
    unfold publish_encoded_size in *.
    set (pid := if p_qos p =? 0 then 0 else 2) in *.
    set (PP := publish_properties_encoded_size (p_properties p) lim) in *.
    rewrite mod32_small by lia. rewrite sub_chk_ok by lia. cbn [wlet].
    replace (es_bytes (p_topic p) + pid + PP + p_payload_size p - (es_bytes (p_topic p) + pid + p_payload_size p))
      with PP by lia.
    apply publish_properties_len. lia.
  - unfold publish_encoded_size. lia.
Qed.
Lemma publish_body_np p lim : publish_encoded_size p lim <= VI_MAX ->
  wnp (publish_body p (publish_encoded_size p lim)).
Proof.
  intros Hs. pose proof (publish_size_props_le p lim) as Hp. unfold publish_body.
  apply wnp_seq; [apply publish_hdr_np|]. intros x Hx.
  rewrite (publish_hdr_len p _ Hx).
  unfold publish_encoded_size in *.
  set (pid := if p_qos p =? 0 then 0 else 2) in *.
  set (PP := publish_properties_encoded_size (p_properties p) lim) in *.
  rewrite mod32_small by lia. rewrite sub_chk_ok by lia. cbn [wlet].
  replace (es_bytes (p_topic p) + pid + PP + p_payload_size p - (es_bytes (p_topic p) + pid + p_payload_size p))
    with PP by lia.
  apply publish_properties_np. lia.
Qed.

(* ================================================================== whole packets *)
Definition first_byte (p : packet) : N :=
  match p with
  | Connect _ => PT_CONNECT | ConnectAck _ => PT_CONNACK
  | PublishAck _ => PT_PUBACK | PublishReceived _ => PT_PUBREC
  | PublishRelease _ => PT_PUBREL | PublishComplete _ => PT_PUBCOMP
  | Subscribe _ => PT_SUBSCRIBE | SubscribeAck _ => PT_SUBACK
  | Unsubscribe _ => PT_UNSUBSCRIBE | UnsubscribeAck _ => PT_UNSUBACK
  | PingRequest => PT_PINGREQ | PingResponse => PT_PINGRESP
  | Disconnect _ => PT_DISCONNECT | Auth _ => PT_AUTH
  end.

(* what follows the fixed header *)
Definition body_encode (p : packet) (sz : N) : wr :=
  match p with
  | Connect c => connect_encode c sz
  | ConnectAck a => connect_ack_encode a sz
  | PublishAck a | PublishReceived a => publish_ack_encode a sz
  | PublishRelease a | PublishComplete a => publish_ack2_encode a sz
  | Subscribe s => subscribe_encode s sz
  | SubscribeAck a => subscribe_ack_encode a sz
  | Unsubscribe u => unsubscribe_encode u sz
  | UnsubscribeAck a => unsubscribe_ack_encode a sz
  | PingRequest | PingResponse => wnop
  | Disconnect d => disconnect_encode d sz
  | Auth a => auth_encode a sz
  end.

Lemma body_len p lim : lim <= VI_MAX -> packet_encoded_size p lim <= lim ->
  wlen (body_encode p (packet_encoded_size p lim)) (packet_encoded_size p lim).
Proof.
  intros Hl Hs. destruct p; cbn [body_encode packet_encoded_size] in *.
  - apply connect_len; lia.
  - apply connect_ack_len; lia.
  - apply publish_ack_len; lia.
  - apply publish_ack_len; lia.
  - apply publish_ack2_len; lia.
  - apply publish_ack2_len; lia.
  - apply subscribe_len; lia.
  - apply subscribe_ack_len; lia.
  - apply unsubscribe_len; lia.
  - apply unsubscribe_ack_len; lia.
  - apply wlen_nop.
  - apply wlen_nop.
  - apply disconnect_len; lia.
  - apply auth_len; lia.
Qed.

Lemma body_np p lim : lim <= VI_MAX -> packet_encoded_size p lim <= lim ->
  wnp (body_encode p (packet_encoded_size p lim)).
Proof.
  intros Hl Hs. destruct p; cbn [body_encode packet_encoded_size] in *.
  - eapply connect_np with (lim := lim); lia.
  - apply connect_ack_np; lia.
  - apply publish_ack_np; lia.
  - apply publish_ack_np; lia.
  - apply publish_ack2_np; lia.
  - apply publish_ack2_np; lia.
  - eapply subscribe_np with (lim := lim); lia.
  - apply subscribe_ack_np; lia.
  - eapply unsubscribe_np with (lim := lim); lia.
  - apply unsubscribe_ack_np; lia.
  - exact I.
  - exact I.
  - apply disconnect_np; lia.
  - apply auth_np; lia.
Qed.

Lemma packet_encode_frame p sz :
  (match p with PingRequest | PingResponse => sz = 0 | _ => True end) ->
  packet_encode p sz = w_u8 (first_byte p) >>> w_vi sz >>> body_encode p sz.
Proof. destruct p; intros H; try reflexivity; subst sz; reflexivity. Qed.

Lemma ping_size p lim :
  match p with PingRequest | PingResponse => packet_encoded_size p lim = 0 | _ => True end.
Proof. destruct p; exact I || reflexivity. Qed.

(* one frame: first byte, Remaining Length = sz, then exactly sz bytes *)
Definition is_frame (fb sz : N) (w body : bytes) : Prop :=
  exists vi, enc_vi sz = Some vi /\ w = fb :: vi ++ body.

Lemma packet_encode_ok p lim w : lim <= VI_MAX -> packet_encoded_size p lim <= lim ->
  packet_encode p (packet_encoded_size p lim) = (w, Ok tt) ->
  exists body, is_frame (first_byte p) (packet_encoded_size p lim) w body /\
               body_encode p (packet_encoded_size p lim) = (body, Ok tt) /\
               len body = packet_encoded_size p lim.
Proof.
  intros Hl Hs H. rewrite packet_encode_frame in H.
  2:{ pose proof (ping_size p lim). destruct p; auto. }
  apply wseq_inv in H as (x & y & E1 & E2 & ->). apply wput_inv in E1. subst x.
  apply wseq_inv in E2 as (vi & body & E3 & E4 & ->). apply w_vi_inv in E3.
  exists body. split; [exists vi; split; [assumption|reflexivity]|]. split; [assumption|].
  eapply body_len; eauto.
Qed.

(* ------------------------------------------------------------------ the codec *)
Lemma max_size_le c : max_size_of c <= VI_MAX.
Proof.
  unfold max_size_of, MAX_PACKET_SIZE, VI_MAX. destruct (negb (ec_max_out_size c =? 0)); lia.
Qed.

Definition strip_packet (p : packet) : packet :=
  match strip_problem_info (EPacket p) with EPacket q => q | _ => p end.
Lemma strip_packet_eq p : strip_problem_info (EPacket p) = EPacket (strip_packet p).
Proof. destruct p; reflexivity. Qed.
Lemma strip_publish p b : strip_problem_info (EPublish p b) = EPublish p b.
Proof. reflexivity. Qed.
Lemma strip_chunk b : strip_problem_info (EPayloadChunk b) = EPayloadChunk b.
Proof. reflexivity. Qed.

(* the packet that is really encoded *)
Definition effective (c : ecodec) (p : packet) : packet :=
  if ec_no_problem_info c then strip_packet p else p.

Lemma encode_item_packet c p :
  encode_item c (EPacket p) =
  match ec_encoding_payload c with
  | Some _ => (wfail EE_ExpectPayload, c)
  | None =>
    let q := effective c p in
    let content_size := packet_encoded_size q (max_size_of c) in
    if max_size_of c <? content_size then (wfail EE_OverMaxPacketSize, c)
    else (wlet (check_frame_size c content_size) (fun _ => packet_encode q content_size), c)
  end.
Proof.
  unfold encode_item, effective. destruct (ec_no_problem_info c); [rewrite strip_packet_eq|]; reflexivity.
Qed.

Lemma encodev_ok c it w c' : encodev c it = ((w, Ok tt), c') -> encode_item c it = ((w, Ok tt), c').
Proof.
  unfold encodev. destruct (encode_item c it) as [[w0 r] c0]. destruct r as [[]|e|s]; intros [= <- <-]; reflexivity.
Qed.

(* C09, packets: one frame whose Remaining Length is the size the library computed, followed by exactly
   that many bytes *)
Theorem v5_size_agrees_packet c p w c' :
  encodev c (EPacket p) = ((w, Ok tt), c') ->
  let q := effective c p in
  let sz := encoded_size (max_size_of c) q in
  c' = c /\ sz <= max_size_of c /\
  exists body, is_frame (first_byte q) sz w body /\ len body = sz.
Proof.
  intros H. apply encodev_ok in H. rewrite encode_item_packet in H.
  destruct (ec_encoding_payload c); [discriminate|]. cbv zeta in H. cbv zeta. unfold encoded_size.
  set (q := effective c p) in *. set (L := max_size_of c) in *.
  pose proof (max_size_le c) as HL. fold L in HL.
  destruct (L <? packet_encoded_size q L) eqn:E; [discriminate|].
  injection H as H <-. apply wlet_inv in H as ([] & _ & H).
  apply packet_encode_ok in H as (body & Hf & _ & Hlen); [|lia|lia].
  split; [reflexivity|]. split; [lia|]. eauto.
Qed.

(* C09, PUBLISH: the frame announces topic + id + properties + the whole payload; the bytes written are
   the frame without the payload still owed; the payload cell remembers what is owed *)
Definition inline_payload (buf : option bytes) : bytes := match buf with Some b => b | None => [] end.

Lemma encodev_publish_inv c p buf w c' :
  encodev c (EPublish p buf) = ((w, Ok tt), c') ->
  let sz := publish_encoded_size p (max_size_of c) in
  sz <= max_size_of c /\
  len (inline_payload buf) <= p_payload_size p /\
  ec_encoding_payload c' = nonzero (p_payload_size p - len (inline_payload buf)) /\
  ec_max_out_size c' = ec_max_out_size c /\ ec_max_out_frame c' = ec_max_out_frame c /\
  ec_no_problem_info c' = ec_no_problem_info c /\
  exists body, is_frame (publish_first_byte p) sz w (body ++ inline_payload buf) /\
               len body + p_payload_size p = sz /\ publish_body p sz = (body, Ok tt).
Proof.
  intros H. apply encodev_ok in H. unfold encode_item in H.
  replace (if ec_no_problem_info c then strip_problem_info (EPublish p buf) else EPublish p buf)
    with (EPublish p buf) in H by (destruct (ec_no_problem_info c); reflexivity).
  cbv zeta. set (L := max_size_of c) in *. pose proof (max_size_le c) as HL. fold L in HL.
  set (sz := publish_encoded_size p L) in *.
  destruct (L <? sz) eqn:E; [discriminate|].
  destruct (match buf with Some b => p_payload_size p <? len b | None => false end) eqn:Eb; [discriminate|].
  destruct (check_frame_size c sz) as [[]|e|s]; try discriminate.
  destruct (publish_encode p sz) as [w0 r0] eqn:Ep. destruct r0 as [[]|e|s].
  2:{ discriminate. } 2:{ discriminate. }
  rewrite publish_encode_eq in Ep.
  apply wseq_inv in Ep as (x & y & E1 & E2 & ->). apply wput_inv in E1. subst x.
  apply wseq_inv in E2 as (vi & body & E3 & E4 & ->). apply w_vi_inv in E3.
  assert (Hb : len body = sz - p_payload_size p).
  { eapply (publish_body_len p L); [fold sz; lia|]. exact E4. }
  assert (Hsz : p_payload_size p <= sz).
  { unfold sz, publish_encoded_size. lia. }
  split; [lia|].
  destruct buf as [b|]; cbn [inline_payload].
  - assert (len b <= p_payload_size p) by lia. rewrite N.mod_small in H by (unfold TWO32, VI_MAX in *; lia).
    rewrite sub_chk_ok in H by lia. injection H as <- <-. cbn.
    repeat split; try lia. exists body. split; [|split; [lia|exact E4]].
    exists vi. split; [assumption|]. cbn [app]. now rewrite <- !app_assoc.
  - injection H as <- <-. cbn. rewrite N.sub_0_r. repeat split; try lia.
    exists body. split; [|split; [lia|exact E4]]. exists vi. split; [assumption|]. now rewrite app_nil_r.
Qed.

Theorem v5_size_agrees_publish c p buf w c' :
  encodev c (EPublish p buf) = ((w, Ok tt), c') ->
  let sz := publish_encoded_size p (max_size_of c) in
  sz <= max_size_of c /\
  len (inline_payload buf) <= p_payload_size p /\
  ec_encoding_payload c' = nonzero (p_payload_size p - len (inline_payload buf)) /\
  ec_max_out_size c' = ec_max_out_size c /\ ec_max_out_frame c' = ec_max_out_frame c /\
  ec_no_problem_info c' = ec_no_problem_info c /\
  exists body, is_frame (publish_first_byte p) sz w (body ++ inline_payload buf) /\
               len body + p_payload_size p = sz.
Proof.
  intros H. apply encodev_publish_inv in H. cbv zeta in *.
  destruct H as (? & ? & ? & ? & ? & ? & body & ? & ? & _). repeat split; try assumption. eauto.
Qed.

(* payload chunks are appended verbatim *)
Theorem v5_size_agrees_chunk c chunk w c' :
  encodev c (EPayloadChunk chunk) = ((w, Ok tt), c') ->
  exists remaining, ec_encoding_payload c = Some remaining /\ w = chunk /\
    len chunk mod TWO32 <= remaining /\
    ec_encoding_payload c' = nonzero (remaining - len chunk mod TWO32).
Proof.
  intros H. apply encodev_ok in H. unfold encode_item in H.
  replace (if ec_no_problem_info c then strip_problem_info (EPayloadChunk chunk) else EPayloadChunk chunk)
    with (EPayloadChunk chunk) in H by (destruct (ec_no_problem_info c); reflexivity).
  destruct (ec_encoding_payload c) as [rem|]; [|discriminate].
  destruct (rem <? len chunk mod TWO32) eqn:E; [discriminate|]. injection H as <- <-.
  exists rem. cbn. repeat split; lia.
Qed.

Theorem v5_size_agrees :
  (forall c p w c', encodev c (EPacket p) = ((w, Ok tt), c') ->
     let q := effective c p in let sz := encoded_size (max_size_of c) q in
     exists body, is_frame (first_byte q) sz w body /\ len body = sz) /\
  (forall c p buf w c', encodev c (EPublish p buf) = ((w, Ok tt), c') ->
     let sz := publish_encoded_size p (max_size_of c) in
     exists body, is_frame (publish_first_byte p) sz w (body ++ inline_payload buf) /\
                  len body + p_payload_size p = sz).
Proof.
  split.
  - intros c p w c' H. apply v5_size_agrees_packet in H. cbv zeta in *. tauto.
  - intros c p buf w c' H. apply v5_size_agrees_publish in H. cbv zeta in *. tauto.
Qed.

(* ------------------------------------------------------------------ within the peer's limit *)
Lemma is_frame_len fb sz w body : is_frame fb sz w body -> len w = 1 + var_int_len sz + len body.
Proof. intros (vi & E & ->). rewrite len_cons, len_app. rewrite (enc_vi_len _ _ E). lia. Qed.

Lemma set_max_frame c m : ec_max_out_frame (set_max_outbound_size c m) = m.
Proof. reflexivity. Qed.

Theorem v5_within_limit_packet c p w c' m :
  ec_max_out_frame c = m -> m <> 0 ->
  encodev c (EPacket p) = ((w, Ok tt), c') -> len w <= m.
Proof.
  intros Hm Hm0 H. pose proof H as H0. apply v5_size_agrees_packet in H0. cbv zeta in H0.
  destruct H0 as (_ & Hsz & body & Hf & Hlen). apply is_frame_len in Hf. rewrite Hf, Hlen.
  apply encodev_ok in H. rewrite encode_item_packet in H.
  destruct (ec_encoding_payload c); [discriminate|]. cbv zeta in H. unfold encoded_size in *.
  destruct (_ <? _); [discriminate|]. injection H as H _. apply wlet_inv in H as ([] & Hc & _).
  unfold check_frame_size in Hc. rewrite Hm in Hc.
  destruct (negb (m =? 0) && (m <? _)) eqn:E; [discriminate|]. lia.
Qed.

Theorem v5_within_limit_publish c p buf w c' m :
  ec_max_out_frame c = m -> m <> 0 ->
  encodev c (EPublish p buf) = ((w, Ok tt), c') ->
  len w + (p_payload_size p - len (inline_payload buf)) <= m.
Proof.
  intros Hm Hm0 H. pose proof H as H0. apply v5_size_agrees_publish in H0. cbv zeta in H0.
  destruct H0 as (Hsz & Hin & _ & _ & _ & _ & body & Hf & Hlen). apply is_frame_len in Hf.
  rewrite Hf, len_app.
  apply encodev_ok in H. unfold encode_item in H.
  replace (if ec_no_problem_info c then strip_problem_info (EPublish p buf) else EPublish p buf)
    with (EPublish p buf) in H by (destruct (ec_no_problem_info c); reflexivity).
  cbv zeta in H. destruct (_ <? _); [discriminate|]. destruct (match buf with Some _ => _ | None => _ end); [discriminate|].
  destruct (check_frame_size c _) as [[]|e|s] eqn:Hc; try discriminate.
  unfold check_frame_size in Hc. rewrite Hm in Hc.
  destruct (negb (m =? 0) && (m <? _)) eqn:E; [discriminate|]. lia.
Qed.

(* with a peer maximum m <> 0 set through set_max_outbound_size, a successful encode appends at most m
   bytes; for a PUBLISH the whole frame (bytes written + payload still owed) is at most m *)
Theorem v5_within_limit c0 m :
  m <> 0 ->
  let c := set_max_outbound_size c0 m in
  (forall p w c', encodev c (EPacket p) = ((w, Ok tt), c') -> len w <= m) /\
  (forall p buf w c', encodev c (EPublish p buf) = ((w, Ok tt), c') ->
     len w + (p_payload_size p - len (inline_payload buf)) <= m).
Proof.
  intros Hm c. split.
  - intros p w c'. apply v5_within_limit_packet; [reflexivity|assumption].
  - intros p buf w c'. apply v5_within_limit_publish; [reflexivity|assumption].
Qed.

(* ------------------------------------------------------------------ failure appends nothing *)
Theorem v5_fail_appends_nothing c it w e c' :
  encodev c it = ((w, Err e), c') -> w = [] /\ c' = c.
Proof.
  unfold encodev. destruct (encode_item c it) as [[w0 r] c0] eqn:E.
  destruct r as [[]|e0|s]; intros [= <- <- <-]. split; [reflexivity|].
  unfold encode_item in E.
  destruct (if ec_no_problem_info c then strip_problem_info it else it) as [pkt|pkt buf|chunk].
  - destruct (ec_encoding_payload c); [now injection E|]. destruct (_ <? _); now injection E.
  - cbv zeta in E. destruct (_ <? _); [now injection E|].
    destruct (match buf with Some _ => _ | None => _ end); [now injection E|].
    destruct (check_frame_size c _) as [[]|e1|s1]; try now injection E.
    destruct (publish_encode pkt _) as [w1 [[]|e1|s1]]; try now injection E.
    destruct buf; [|discriminate]. destruct (sub_chk _ _); try discriminate; now injection E.
  - destruct (ec_encoding_payload c); [|now injection E]. destruct (_ <? _); [now injection E|discriminate].
Qed.

(* ------------------------------------------------------------------ no panic, whatever the limit *)
Lemma check_frame_size_np c n : np (check_frame_size c n).
Proof. unfold check_frame_size. destruct (_ && _); exact I. Qed.

Theorem v5_no_limit_panics c it : wnp (fst (encodev c it)).
Proof.
  assert (H : wnp (fst (encode_item c it))).
  2:{ unfold encodev. destruct (encode_item c it) as [[w r] c0]. destruct r; exact H || exact I. }
  unfold encode_item. pose proof (max_size_le c) as HL. set (L := max_size_of c) in *.
  destruct (if ec_no_problem_info c then strip_problem_info it else it) as [pkt|pkt buf|chunk]; cbv zeta.
  - destruct (ec_encoding_payload c); [exact I|]. destruct (L <? packet_encoded_size pkt L) eqn:E; [exact I|].
    cbn [fst]. apply wnp_let; [apply check_frame_size_np|]. intros _ _.
    rewrite packet_encode_frame. 2:{ pose proof (ping_size pkt L). destruct pkt; auto. }
    apply wnp_then; [exact I|]. apply wnp_then; [apply wnp_vi; lia|]. apply body_np; lia.
  - destruct (L <? publish_encoded_size pkt L) eqn:E; [exact I|].
    destruct (match buf with Some b => p_payload_size pkt <? len b | None => false end) eqn:Eb; [exact I|].
    destruct (check_frame_size c _) as [[]|e1|s1] eqn:Hc; try exact I.
    2:{ pose proof (check_frame_size_np c (publish_encoded_size pkt L)) as Hn. rewrite Hc in Hn. contradiction. }
    assert (Hp : wnp (publish_encode pkt (publish_encoded_size pkt L))).
    { rewrite publish_encode_eq. apply wnp_then; [exact I|]. apply wnp_then; [apply wnp_vi; lia|].
      apply publish_body_np. lia. }
    destruct (publish_encode pkt _) as [w1 [[]|e1|s1]]; try exact Hp.
    destruct buf as [b|]; [|exact I].
    rewrite N.mod_small by (assert (publish_encoded_size pkt L >= p_payload_size pkt)
      by (unfold publish_encoded_size; lia); unfold TWO32, VI_MAX in *; lia).
    rewrite sub_chk_ok by lia. exact I.
  - destruct (ec_encoding_payload c); [|exact I]. destruct (_ <? _); exact I.
Qed.

(* "every limit value": the same through the public setter *)
Corollary v5_no_limit_panics_setter c0 m it : wnp (fst (encodev (set_max_outbound_size c0 m) it)).
Proof. apply v5_no_limit_panics. Qed.
