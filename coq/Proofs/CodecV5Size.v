(* Proofs/CodecV5Size.v -- property C09 for the MQTT 5 encoder model: the Remaining Length written is
   the size the library computed and is the number of bytes that follow; limits; no panic. *)
From Coq Require Import ZArith ZifyN ZifyBool Lia.
From MV Require Import Base.Prelude Base.Res Base.VarInt Base.Utf8 Model.CodecV5
  Proofs.VarIntProofs Proofs.CodecV5Fields.
Ltac Zify.zify_post_hook ::= Z.div_mod_to_equations.

(* ------------------------------------------------------------------ more structural automation *)
Lemma wlen_prop_u16 v pt : wlen (w_prop w_u16 v pt) (eps sz2 v).
Proof. apply wlen_prop. exact wlen_sz2_u16. Qed.
Lemma wlen_prop_u32 v pt : wlen (w_prop w_u32 v pt) (eps sz4 v).
Proof. apply wlen_prop. exact wlen_sz4_u32. Qed.
Lemma wlen_prop_bool v pt : wlen (w_prop w_bool v pt) (eps sz1 v).
Proof. apply wlen_prop. exact wlen_sz1_bool. Qed.
Lemma wlen_prop_bytes v pt : wlen (w_prop w_bytes v pt) (eps es_bytes v).
Proof. apply wlen_prop. exact wlen_bytes. Qed.
Lemma wlen_propd_u16 d v pt : wlen (w_prop_default w_u16 d v pt) (eps_default sz2 d v).
Proof. apply wlen_prop_default. exact wlen_sz2_u16. Qed.
Lemma wlen_propd_u32 d v pt : wlen (w_prop_default w_u32 d v pt) (eps_default sz4 d v).
Proof. apply wlen_prop_default. exact wlen_sz4_u32. Qed.
Lemma wlen_propd_bool d v pt : wlen (w_prop_default w_bool d v pt) (eps_default sz1 d v).
Proof. apply wlen_prop_default. exact wlen_sz1_bool. Qed.

Ltac wlen_struct ::=
  lazymatch goal with
  | |- wlen (wseq _ (fun _ => _)) _ => eapply wlen_then; [wlen_struct | wlen_struct]
  | |- wlen (w_u8 _) _ => apply wlen_u8
  | |- wlen (w_bool _) _ => apply wlen_bool
  | |- wlen (w_u16 _) _ => apply wlen_u16
  | |- wlen (w_u32 _) _ => apply wlen_u32
  | |- wlen (w_bytes _) _ => apply wlen_bytes
  | |- wlen (w_uprop _) _ => apply wlen_uprop
  | |- wlen (w_uprops _) _ => apply wlen_uprops
  | |- wlen (w_sub_ids _) _ => apply wlen_sub_ids
  | |- wlen (w_sub_filters _) _ => apply wlen_sub_filters
  | |- wlen (w_unsub_filters _) _ => apply wlen_unsub_filters
  | |- wlen (w_vi _) _ => apply wlen_vi
  | |- wlen (w_prop w_u16 _ _) _ => apply wlen_prop_u16
  | |- wlen (w_prop w_u32 _ _) _ => apply wlen_prop_u32
  | |- wlen (w_prop w_bool _ _) _ => apply wlen_prop_bool
  | |- wlen (w_prop w_bytes _ _) _ => apply wlen_prop_bytes
  | |- wlen (w_prop_default w_u16 _ _ _) _ => apply wlen_propd_u16
  | |- wlen (w_prop_default w_u32 _ _ _) _ => apply wlen_propd_u32
  | |- wlen (w_prop_default w_bool _ _ _) _ => apply wlen_propd_bool
  | |- wlen (wput _) _ => apply wlen_put
  | |- wlen wnop _ => apply wlen_nop
  | |- wlen (match ?o with Some _ => _ | None => _ end) _ =>
      instantiate (1 := match o with Some _ => _ | None => _ end); destruct o; wlen_struct
  | |- wlen (if ?c then _ else _) _ =>
      instantiate (1 := if c then _ else _); destruct c; wlen_struct
  | |- _ => eassumption
  end.

Ltac wnp_struct :=
  lazymatch goal with
  | |- wnp (wseq _ (fun _ => _)) => apply wnp_then; [wnp_struct | wnp_struct]
  | |- wnp (w_u8 _) => exact I
  | |- wnp (w_bool _) => exact I
  | |- wnp (w_u16 _) => exact I
  | |- wnp (w_u32 _) => exact I
  | |- wnp (wput _) => exact I
  | |- wnp wnop => exact I
  | |- wnp (wfail _) => exact I
  | |- wnp (w_bytes _) => apply wnp_bytes
  | |- wnp (w_uprop _) => apply wnp_uprop
  | |- wnp (w_uprops _) => apply wnp_uprops
  | |- wnp (w_sub_filters _) => apply wnp_sub_filters
  | |- wnp (w_unsub_filters _) => apply wnp_unsub_filters
  | |- wnp (w_prop _ _ _) => apply wnp_prop; intro; wnp_struct
  | |- wnp (w_prop_default _ _ _ _) => apply wnp_prop_default; intro; wnp_struct
  | |- wnp (match ?o with Some _ => _ | None => _ end) => destruct o; wnp_struct
  | |- wnp (if ?c then _ else _) => destruct c; wnp_struct
  | |- _ => idtac
  end.

Lemma reduce_limit_le lim r : reduce_limit lim r <= lim.
Proof. unfold reduce_limit. destruct (lim <? r) eqn:E; lia. Qed.

Lemma mod32_small n : n <= VI_MAX -> n mod TWO32 = n.
Proof. unfold VI_MAX, TWO32. intros. apply N.mod_small. lia. Qed.

(* ------------------------------------------------------------------ PUBACK family *)
Lemma publish_ack_len a lim : lim <= VI_MAX ->
  wlen (publish_ack_encode a (publish_ack_encoded_size a lim)) (publish_ack_encoded_size a lim).
Proof.
  intros Hl. unfold publish_ack_encode, publish_ack_encoded_size.
  set (S := ack_props_encoded_size _ _ _). rewrite sub_chk_ok by lia. cbn [wlet].
  replace (3 + S - 3) with S by lia.
  pose proof (ack_props_len (pa_properties a) (pa_reason_string a) (reduce_limit lim (3 + 4))) as H.
  pose proof (reduce_limit_le lim (3 + 4)). specialize (H ltac:(lia)). fold S in H.
  wlen_tac.
Qed.
Lemma publish_ack_np a lim : lim <= VI_MAX ->
  wnp (publish_ack_encode a (publish_ack_encoded_size a lim)).
Proof.
  intros Hl. unfold publish_ack_encode, publish_ack_encoded_size.
  set (S := ack_props_encoded_size _ _ _). rewrite sub_chk_ok by lia. cbn [wlet].
  replace (3 + S - 3) with S by lia. wnp_struct.
  pose proof (reduce_limit_le lim (3 + 4)). apply ack_props_np. lia.
Qed.
Lemma publish_ack2_len a lim : lim <= VI_MAX ->
  wlen (publish_ack2_encode a (publish_ack2_encoded_size a lim)) (publish_ack2_encoded_size a lim).
Proof.
  intros Hl. unfold publish_ack2_encode, publish_ack2_encoded_size.
  set (S := ack_props_encoded_size _ _ _). rewrite sub_chk_ok by lia. cbn [wlet].
  replace (3 + S - 3) with S by lia.
  pose proof (ack_props_len (pa2_properties a) (pa2_reason_string a) (reduce_limit lim (3 + 4))) as H.
  pose proof (reduce_limit_le lim (3 + 4)). specialize (H ltac:(lia)). fold S in H.
  wlen_tac.
Qed.
Lemma publish_ack2_np a lim : lim <= VI_MAX ->
  wnp (publish_ack2_encode a (publish_ack2_encoded_size a lim)).
Proof.
  intros Hl. unfold publish_ack2_encode, publish_ack2_encoded_size.
  set (S := ack_props_encoded_size _ _ _). rewrite sub_chk_ok by lia. cbn [wlet].
  replace (3 + S - 3) with S by lia. wnp_struct.
  pose proof (reduce_limit_le lim (3 + 4)). apply ack_props_np. lia.
Qed.

(* ------------------------------------------------------------------ SUBACK / UNSUBACK *)
Lemma subscribe_ack_len a lim : lim <= VI_MAX -> subscribe_ack_encoded_size a lim <= lim ->
  wlen (subscribe_ack_encode a (subscribe_ack_encoded_size a lim)) (subscribe_ack_encoded_size a lim).
Proof.
  intros Hl. unfold subscribe_ack_encode, subscribe_ack_encoded_size.
  destruct (U32MAX - 2 <? len (sa_status a)) eqn:E. { unfold USIZE_MAX, U64MAX, VI_MAX in *. lia. }
  set (S := ack_props_encoded_size _ _ _). intros Hs.
  rewrite sub_chk_ok by lia. cbn [wlet].
  rewrite mod32_small by lia. rewrite sub_chk_ok by lia. cbn [wlet].
  replace (2 + S + len (sa_status a) - 2 - len (sa_status a)) with S by lia.
  pose proof (ack_props_len (sa_properties a) (sa_reason_string a) (reduce_limit lim (2 + len (sa_status a)))) as H.
  pose proof (reduce_limit_le lim (2 + len (sa_status a))). specialize (H ltac:(lia)). fold S in H.
  wlen_tac.
Qed.
Lemma subscribe_ack_np a lim : lim <= VI_MAX -> subscribe_ack_encoded_size a lim <= lim ->
  wnp (subscribe_ack_encode a (subscribe_ack_encoded_size a lim)).
Proof.
  intros Hl. unfold subscribe_ack_encode, subscribe_ack_encoded_size.
  destruct (U32MAX - 2 <? len (sa_status a)) eqn:E. { unfold USIZE_MAX, U64MAX, VI_MAX in *. lia. }
  set (S := ack_props_encoded_size _ _ _). intros Hs.
  rewrite sub_chk_ok by lia. cbn [wlet].
  rewrite mod32_small by lia. rewrite sub_chk_ok by lia. cbn [wlet].
  replace (2 + S + len (sa_status a) - 2 - len (sa_status a)) with S by lia.
  wnp_struct. pose proof (reduce_limit_le lim (2 + len (sa_status a))). apply ack_props_np. lia.
Qed.
Lemma unsubscribe_ack_len a lim : lim <= VI_MAX -> unsubscribe_ack_encoded_size a lim <= lim ->
  wlen (unsubscribe_ack_encode a (unsubscribe_ack_encoded_size a lim)) (unsubscribe_ack_encoded_size a lim).
Proof.
  intros Hl. unfold unsubscribe_ack_encode, unsubscribe_ack_encoded_size.
  set (S := ack_props_encoded_size _ _ _). intros Hs.
  rewrite sub_chk_ok by lia. cbn [wlet].
  rewrite mod32_small by lia. rewrite sub_chk_ok by lia. cbn [wlet].
  replace (2 + len (ua_status a) + S - 2 - len (ua_status a)) with S by lia.
  pose proof (ack_props_len (ua_properties a) (ua_reason_string a) (reduce_limit lim (2 + len (ua_status a)))) as H.
  pose proof (reduce_limit_le lim (2 + len (ua_status a))). specialize (H ltac:(lia)). fold S in H.
  wlen_tac.
Qed.
Lemma unsubscribe_ack_np a lim : lim <= VI_MAX -> unsubscribe_ack_encoded_size a lim <= lim ->
  wnp (unsubscribe_ack_encode a (unsubscribe_ack_encoded_size a lim)).
Proof.
  intros Hl. unfold unsubscribe_ack_encode, unsubscribe_ack_encoded_size.
  set (S := ack_props_encoded_size _ _ _). intros Hs.
  rewrite sub_chk_ok by lia. cbn [wlet].
  rewrite mod32_small by lia. rewrite sub_chk_ok by lia. cbn [wlet].
  replace (2 + len (ua_status a) + S - 2 - len (ua_status a)) with S by lia.
  wnp_struct. pose proof (reduce_limit_le lim (2 + len (ua_status a))). apply ack_props_np. lia.
Qed.

(* ------------------------------------------------------------------ packets with a fixed part followed by
   optional diagnostics: DISCONNECT, AUTH, CONNACK.  Generic shape:
     wseq (head >>> wlet (sub_chk size h) (fun s => wlet (vilfs s) (fun pl => w_vi pl >>> fixed)))
          (fun written => wlet (sub_chk size (len written mod 2^32)) (eop ups reason))          *)
Section Diag.
  Variables (head fixed : wr) (h pl1 lim' : N) (ups : uprops) (reason : option bytes).
  Hypothesis Hhead : wlen head h.
  Hypothesis Hfixed : wlen fixed pl1.
  Let D := encoded_size_opt_props ups reason lim'.
  Let PL := pl1 + D.
  Let size := h + var_int_len PL + PL.
  Definition diag_encode (sz : N) : wr :=
    wseq (head >>> wlet (sub_chk sz h) (fun s => wlet (var_int_len_from_size s) (fun pl => w_vi pl >>> fixed)))
         (fun written => wlet (sub_chk sz (len written mod TWO32)) (fun rest => encode_opt_props ups reason rest)).

  Lemma diag_len : size <= VI_MAX -> wlen (diag_encode size) size.
  Proof.
    intros Hs. unfold diag_encode.
    pose proof (eq_refl : PL = pl1 + D) as HPL. pose proof (eq_refl : size = h + var_int_len PL + PL) as Hsz.
    pose proof (var_int_len_pos PL).
    assert (E1 : sub_chk size h = Ok (var_int_len PL + PL)).
    { rewrite sub_chk_ok by lia. f_equal. lia. }
    rewrite E1. cbn [wlet]. rewrite varlen_inverse' by lia. cbn [wlet].
    eapply wlen_eq.
    - eapply wlen_seq.
      + wlen_struct.
      + intros x Hx.
        assert (Hlx : len x = h + (var_int_len PL + pl1)).
        { revert x Hx. change (wlen (head >>> w_vi PL >>> fixed) (h + (var_int_len PL + pl1))). wlen_tac. }
        rewrite Hlx. rewrite mod32_small by lia.
        rewrite sub_chk_ok by lia. cbn [wlet].
        replace (size - (h + (var_int_len PL + pl1))) with D by lia.
        apply eop_len.
    - lia.
  Qed.

  Hypothesis Hheadnp : wnp head.
  Hypothesis Hfixednp : wnp fixed.
  Lemma diag_np : size <= VI_MAX -> wnp (diag_encode size).
  Proof.
    intros Hs. unfold diag_encode.
    pose proof (eq_refl : PL = pl1 + D) as HPL. pose proof (eq_refl : size = h + var_int_len PL + PL) as Hsz.
    pose proof (var_int_len_pos PL).
    assert (E1 : sub_chk size h = Ok (var_int_len PL + PL)).
    { rewrite sub_chk_ok by lia. f_equal. lia. }
    rewrite E1. cbn [wlet]. rewrite varlen_inverse' by lia. cbn [wlet].
    apply wnp_seq.
    - wnp_struct; try assumption. apply wnp_vi. lia.
    - intros x Hx.
      assert (Hlx : len x = h + (var_int_len PL + pl1)).
      { revert x Hx. change (wlen (head >>> w_vi PL >>> fixed) (h + (var_int_len PL + pl1))). wlen_tac. }
      rewrite Hlx. rewrite mod32_small by lia.
      rewrite sub_chk_ok by lia. cbn [wlet]. apply eop_np.
  Qed.
End Diag.

Lemma disconnect_is_diag d sz :
  disconnect_encode d sz =
  diag_encode (w_u8 (d_reason_code d))
    (w_prop w_u32 (d_session_expiry_interval_secs d) P_SESS_EXPIRY_INT >>>
     w_prop w_bytes (d_server_reference d) P_SERVER_REF) 1 (d_user_properties d) (d_reason_string d) sz.
Proof. reflexivity. Qed.

Lemma disconnect_len d lim : disconnect_encoded_size d lim <= VI_MAX ->
  wlen (disconnect_encode d (disconnect_encoded_size d lim)) (disconnect_encoded_size d lim).
Proof.
  intros Hs. rewrite disconnect_is_diag. unfold disconnect_encoded_size in *.
  apply diag_len; [apply wlen_u8| |exact Hs]. wlen_tac.
Qed.
Lemma disconnect_np d lim : disconnect_encoded_size d lim <= VI_MAX ->
  wnp (disconnect_encode d (disconnect_encoded_size d lim)).
Proof.
  intros Hs. rewrite disconnect_is_diag. unfold disconnect_encoded_size in *.
  eapply diag_np; [apply wlen_u8| | | |exact Hs]; [wlen_tac|wnp_struct|wnp_struct].
Qed.

Lemma auth_is_diag a sz :
  auth_encode a sz =
  diag_encode (w_u8 (a_reason_code a))
    (w_prop w_bytes (a_auth_method a) P_AUTH_METHOD >>> w_prop w_bytes (a_auth_data a) P_AUTH_DATA)
    1 (a_user_properties a) (a_reason_string a) sz.
Proof. reflexivity. Qed.

Lemma auth_len a lim : auth_encoded_size a lim <= VI_MAX ->
  wlen (auth_encode a (auth_encoded_size a lim)) (auth_encoded_size a lim).
Proof.
  intros Hs. rewrite auth_is_diag. unfold auth_encoded_size in *.
  apply diag_len; [apply wlen_u8| |exact Hs]. wlen_tac.
Qed.
Lemma auth_np a lim : auth_encoded_size a lim <= VI_MAX ->
  wnp (auth_encode a (auth_encoded_size a lim)).
Proof.
  intros Hs. rewrite auth_is_diag. unfold auth_encoded_size in *.
  eapply diag_np; [apply wlen_u8| | | |exact Hs]; [wlen_tac|wnp_struct|wnp_struct].
Qed.

Definition connect_ack_fixed (a : connect_ack) : wr :=
  w_prop w_u32 (ca_session_expiry_interval_secs a) P_SESS_EXPIRY_INT >>>
  w_prop_default w_u16 (ca_receive_max a =? RECEIVE_MAX_DEFAULT) (ca_receive_max a) P_RECEIVE_MAX >>>
  (if ca_max_qos a <? 2 then wput [P_MAX_QOS; ca_max_qos a] else wnop) >>>
  w_prop_default w_bool (Bool.eqb (ca_retain_available a) true) (ca_retain_available a) P_RETAIN_AVAIL >>>
  w_prop w_u32 (ca_max_packet_size a) P_MAX_PACKET_SIZE >>>
  w_prop w_bytes (ca_assigned_client_id a) P_ASSND_CLIENT_ID >>>
  w_prop_default w_u16 (ca_topic_alias_max a =? 0) (ca_topic_alias_max a) P_TOPIC_ALIAS_MAX >>>
  w_prop_default w_bool (Bool.eqb (ca_wildcard_subscription_available a) true)
                 (ca_wildcard_subscription_available a) P_WILDCARD_SUB_AVAIL >>>
  w_prop_default w_bool (Bool.eqb (ca_subscription_identifiers_available a) true)
                 (ca_subscription_identifiers_available a) P_SUB_IDS_AVAIL >>>
  w_prop_default w_bool (Bool.eqb (ca_shared_subscription_available a) true)
                 (ca_shared_subscription_available a) P_SHARED_SUB_AVAIL >>>
  w_prop w_u16 (ca_server_keepalive_sec a) P_SERVER_KA >>>
  w_prop w_bytes (ca_response_info a) P_RESP_INFO >>>
  w_prop w_bytes (ca_server_reference a) P_SERVER_REF >>>
  w_prop w_bytes (ca_auth_method a) P_AUTH_METHOD >>>
  w_prop w_bytes (ca_auth_data a) P_AUTH_DATA.

Definition connect_ack_fixed_len (a : connect_ack) : N :=
  let prop_len0 :=
    eps sz4 (ca_session_expiry_interval_secs a)
    + eps_default sz2 (ca_receive_max a =? RECEIVE_MAX_DEFAULT) (ca_receive_max a)
    + (if ca_max_qos a <? 2 then 1 + 1 else 0)
    + eps sz4 (ca_max_packet_size a)
    + eps es_bytes (ca_assigned_client_id a)
    + eps_default sz1 (Bool.eqb (ca_retain_available a) true) (ca_retain_available a)
    + eps_default sz1 (Bool.eqb (ca_wildcard_subscription_available a) true) (ca_wildcard_subscription_available a)
    + eps_default sz1 (Bool.eqb (ca_subscription_identifiers_available a) true)
                  (ca_subscription_identifiers_available a)
    + eps_default sz1 (Bool.eqb (ca_shared_subscription_available a) true) (ca_shared_subscription_available a)
    + eps sz2 (ca_server_keepalive_sec a)
    + eps es_bytes (ca_response_info a)
    + eps es_bytes (ca_server_reference a)
    + eps es_bytes (ca_auth_method a)
    + eps es_bytes (ca_auth_data a) in
  if 0 <? ca_topic_alias_max a then prop_len0 + (1 + 2) else prop_len0.

Lemma connect_ack_is_diag a sz :
  connect_ack_encode a sz =
  diag_encode (wput [b2n (ca_session_present a); ca_reason_code a]) (connect_ack_fixed a) 2
    (ca_user_properties a) (ca_reason_string a) sz.
Proof. reflexivity. Qed.

Lemma connect_ack_size_eq a lim :
  connect_ack_encoded_size a lim =
  let pl1 := connect_ack_fixed_len a in
  let D := encoded_size_opt_props (ca_user_properties a) (ca_reason_string a) (reduce_limit lim (2 + 4 + pl1)) in
  2 + var_int_len (pl1 + D) + (pl1 + D).
Proof. reflexivity. Qed.

Lemma connect_ack_fixed_wlen a : wlen (connect_ack_fixed a) (connect_ack_fixed_len a).
Proof.
  unfold connect_ack_fixed, connect_ack_fixed_len.
  eapply wlen_eq; [wlen_struct|].
  unfold eps_default at 3. unfold sz2 at 2.
  destruct (ca_max_qos a <? 2); destruct (ca_topic_alias_max a =? 0) eqn:E;
    destruct (0 <? ca_topic_alias_max a) eqn:E'; try lia; autorewrite with len; lia.
Qed.

Lemma connect_ack_fixed_wnp a : wnp (connect_ack_fixed a).
Proof. unfold connect_ack_fixed. wnp_struct. Qed.

Lemma connect_ack_len a lim : connect_ack_encoded_size a lim <= VI_MAX ->
  wlen (connect_ack_encode a (connect_ack_encoded_size a lim)) (connect_ack_encoded_size a lim).
Proof.
  intros Hs. rewrite connect_ack_is_diag. rewrite connect_ack_size_eq in *. cbv zeta in *.
  apply diag_len; [apply wlen_put|apply connect_ack_fixed_wlen|exact Hs].
Qed.
Lemma connect_ack_np a lim : connect_ack_encoded_size a lim <= VI_MAX ->
  wnp (connect_ack_encode a (connect_ack_encoded_size a lim)).
Proof.
  intros Hs. rewrite connect_ack_is_diag. rewrite connect_ack_size_eq in *. cbv zeta in *.
  eapply diag_np; [apply wlen_put|apply connect_ack_fixed_wlen|exact I|apply connect_ack_fixed_wnp|exact Hs].
Qed.
