(* Proofs/CodecV5Frag.v -- C10 for the MQTT 5 stream decoder model WITH PUBLISH frames.
   With PUBLISH the emitted items depend on how the stream was cut (DPublish carries whatever part of
   the payload is buffered, DPayloadChunk items follow); the statement is therefore up to [observe]:
   payload chunks are merged into the publish they belong to, and when the run ends inside a message
   (Blocked in state PublishPayload rem) the bytes still sitting in the buffer are counted as payload
   received so far.  Main theorem: [v5_frag_independent_publish], for any max_in, any min_chunk.

   Route: [sem acc st buf] = observation of the one-shot run on [buf] from state [st] (items folded
   into the normalisation accumulator [acc]).  One decoder step on a PREFIX s of the buffer is sound
   for the one-shot semantics of s ++ x ([ext_ok], proved state by state); the junction lemma
   [frag_junction] follows by induction on the run, [feed_obs] by induction on the chunks. *)
From Coq Require Import ZArith ZifyN ZifyBool Lia.
From MV Require Import Base.Prelude Base.Res Base.VarInt Base.Utf8 Proofs.VarIntProofs Model.CodecV5
  Proofs.CodecV5DecBase Proofs.CodecV5Stream.
Ltac Zify.zify_post_hook ::= Z.div_mod_to_equations.
Set Warnings "-unused-intro-pattern".

(* ================================================================== normalisation *)
(* one item into the (reversed) normal form: a payload chunk is appended to the publish (or to the
   chunk, for a run that starts in the middle of a message) that precedes it *)
Definition nstep (acc : list decoded) (it : decoded) : list decoded :=
  match it with
  | DPayloadChunk c eof =>
    match acc with
    | DPublish p pl sz :: acc' => DPublish p (pl ++ c) sz :: acc'
    | DPayloadChunk c0 _ :: acc' => DPayloadChunk (c0 ++ c) eof :: acc'
    | _ => it :: acc
    end
  | _ => it :: acc
  end.
Definition nfold (acc : list decoded) (its : list decoded) : list decoded := fold_left nstep its acc.
Definition norm_items (its : list decoded) : list decoded := rev (nfold [] its).

(* observation of a run; [acc] = normal form (reversed) of what was emitted before the run *)
Definition obs (acc : list decoded) (R : run_result) : run_result :=
  let '(its, o, st, npi, buf) := R in
  match o, st with
  | Blocked, PublishPayload rem =>
    (rev (nfold acc (its ++ [DPayloadChunk buf false])), Blocked, PublishPayload (rem - len buf), npi, [])
  | _, _ => (rev (nfold acc its), o, st, npi, buf)
  end.
Definition observe (R : run_result) : run_result := obs [] R.

Lemma nfold_app acc l1 l2 : nfold acc (l1 ++ l2) = nfold (nfold acc l1) l2.
Proof. apply fold_left_app. Qed.

Lemma obs_rr_app acc l R : obs acc (rr_app l R) = obs (nfold acc l) R.
Proof.
  destruct R as [[[[its o] st] npi] buf]. cbn [rr_app obs].
  destruct o; try destruct st; rewrite <- ?app_assoc, nfold_app; reflexivity.
Qed.

Lemma nstep_merge A c e1 d e2 :
  nstep (nstep A (DPayloadChunk c e1)) (DPayloadChunk d e2) = nstep A (DPayloadChunk (c ++ d) e2).
Proof. destruct A as [|[?|? ? ?|? ?] A']; cbn [nstep]; rewrite <- ?app_assoc; reflexivity. Qed.

(* ================================================================== measure, fuel *)
Definition gmeas (st : dstate) (buf : bytes) : nat :=
  (length buf + match st with FrameHeader => 0 | _ => 1 end)%nat.

Lemma gmeas_fuel st s : (gmeas st s < drain_fuel s)%nat.
Proof. unfold gmeas, drain_fuel. destruct st; lia. Qed.

Lemma publish_decode_ok_len b fl ps p : publish_decode b fl ps = Ok p -> (2 <= length b)%nat.
Proof.
  unfold publish_decode. intros H. apply bind_ok_inv in H as ([t r] & E & _).
  pose proof (dec_string_gd b) as G. rewrite E in G. cbn [gd] in G. lia.
Qed.

Definition Kst (rem : N) : dstate := if 0 <? rem then PublishPayload rem else FrameHeader.

(* what a successful step_publish_properties looks like *)
Lemma step_props_item_inv mc npi pl fb rl s it st' npi' r :
  step_publish_properties mc npi pl fb rl s = (Ok (Some it), st', npi', r) ->
  (gmeas st' r < length s + 1)%nat.
Proof.
  rewrite step_publish_properties_eq. cbv zeta.
  destruct (len s <? pl) eqn:E1; [discriminate|]. destruct (pl <=? rl); [|discriminate].
  destruct (publish_decode (firstn (N.to_nat pl) s) fb (rl - pl)) as [p| |] eqn:Ep; try discriminate.
  apply publish_decode_ok_len in Ep. rewrite firstn_length in Ep.
  match goal with |- context [if ?c then _ else _] => destruct c end; intros [= <- <- <- <-];
    unfold gmeas; rewrite ?skipn_length; unfold len in *.
  - match goal with |- context [if ?c then _ else _] => destruct c end; lia.
  - lia.
Qed.

Definition hdr_cont (mc : N) (npi : bool) (fb rl : N) (b : bytes) : dresult :=
  if is_publish fb then step_publish_header mc npi fb rl b else step_frame npi fb rl b.

Lemma sfh_cases_gen mi mc npi s :
  step_frame_header mi mc npi s = (Ok None, FrameHeader, npi, s) \/
  (exists e, step_frame_header mi mc npi s = (Err e, FrameHeader, npi, s) /\
             forall x, step_frame_header mi mc npi (s ++ x) = (Err e, FrameHeader, npi, s ++ x)) \/
  (exists fb rl k, (1 <= k <= length s)%nat /\
     step_frame_header mi mc npi s = hdr_cont mc npi fb rl (skipn k s) /\
     forall x, step_frame_header mi mc npi (s ++ x) = hdr_cont mc npi fb rl (skipn k s ++ x)).
Proof.
  destruct s as [|fb [|b tl]]; [left; reflexivity|left; reflexivity|].
  remember (b :: tl) as tl_ eqn:Et. assert (Hne : tl_ <> []) by (subst; discriminate).
  assert (Hne' : forall x, tl_ ++ x <> []) by (intros x; subst; discriminate).
  rewrite (sfh_cons _ _ _ _ _ Hne). unfold sfh_body.
  destruct (dec_vi_opt tl_) as [[[rl c]|]|e|p] eqn:E.
  - destruct (negb (mi =? 0) && (mi <? rl)) eqn:Eo.
    + right; left. exists DE_MaxSizeExceeded. split; [reflexivity|]. intros x.
      cbn [app]. rewrite (sfh_cons _ _ _ _ _ (Hne' x)). unfold sfh_body.
      destruct (dec_vi_opt_app_some _ x _ _ E) as [-> _]. rewrite Eo. reflexivity.
    + right; right. exists fb, rl, (N.to_nat (c + 1)).
      destruct (dec_vi_opt_app_some _ [] _ _ E) as [_ Hc].
      assert (Hk : (1 <= N.to_nat (c + 1) <= length (fb :: tl_))%nat).
      { cbn [length]. unfold len in Hc. lia. }
      split; [exact Hk|]. split; [reflexivity|]. intros x.
      cbn [app]. rewrite (sfh_cons _ _ _ _ _ (Hne' x)). unfold sfh_body.
      destruct (dec_vi_opt_app_some _ x _ _ E) as [-> _]. rewrite Eo.
      change (fb :: tl_ ++ x) with ((fb :: tl_) ++ x). rewrite skipn_app_le by lia. reflexivity.
  - left. reflexivity.
  - right; left. exists e. split; [reflexivity|]. intros x.
    cbn [app]. rewrite (sfh_cons _ _ _ _ _ (Hne' x)). unfold sfh_body.
    rewrite (dec_vi_opt_app_err _ x _ E). reflexivity.
  - pose proof (dec_vi_opt_np tl_) as T. rewrite E in T. contradiction.
Qed.

Lemma step_header_item_inv mc npi fb rl s it st' npi' r :
  step_publish_header mc npi fb rl s = (Ok (Some it), st', npi', r) -> (gmeas st' r < length s + 1)%nat.
Proof.
  rewrite step_publish_header_eq. destruct (packet_header_size s fb rl) as [[l|]| |]; try discriminate.
  apply step_props_item_inv.
Qed.

(* an item-producing step strictly decreases the measure, in every state *)
Lemma step_item_gmeas mi mc npi st s it st' npi' r :
  decode_step mi mc npi st s = (Ok (Some it), st', npi', r) -> (gmeas st' r < gmeas st s)%nat.
Proof.
  destruct st as [|fb rl|fb rl|pl fb rl|rem]; cbn [decode_step]; intros E.
  - destruct (sfh_cases_gen mi mc npi s) as [E0|[(e & E0 & _)|(fb & rl & k & Hk & E0 & _)]];
      try (rewrite E0 in E; discriminate).
    rewrite E0 in E. unfold hdr_cont in E. unfold gmeas at 2.
    assert (L : (length (skipn k s) + 1 <= length s)%nat) by (rewrite skipn_length; lia).
    destruct (is_publish fb).
    + apply step_header_item_inv in E. lia.
    + destruct (step_frame_item_inv _ _ _ _ _ _ _ _ E) as (_ & -> & ->).
      unfold gmeas. rewrite !skipn_length in *. lia.
  - destruct (step_frame_item_inv _ _ _ _ _ _ _ _ E) as (_ & -> & ->).
    unfold gmeas. rewrite skipn_length. lia.
  - apply step_header_item_inv in E. unfold gmeas at 2. lia.
  - apply step_props_item_inv in E. unfold gmeas at 2. lia.
  - rewrite step_publish_payload_eq in E. cbv zeta in E.
    destruct ((rem <=? len s) || (negb (mc =? 0) && (mc <=? len s))) eqn:C; [|discriminate].
    injection E as <- <- <- <-. unfold gmeas. rewrite skipn_length.
    destruct (0 <? rem - len (firstn (N.to_nat (N.min (len s) rem)) s)) eqn:R.
    + rewrite llen_firstn in R. unfold len in *. lia.
    + lia.
Qed.

Section WithCfg.
Variables mi mc : N.

Lemma drain_S g f npi st buf :
  drain g (S f) mi mc npi st buf =
  if g && negb (nonpubb st buf) then ([], SawPublish, st, npi, buf)
  else match decode_step mi mc npi st buf with
       | (Ok None, st', npi', r) => ([], Blocked, st', npi', r)
       | (Ok (Some it), st', npi', r) => rr_app [it] (drain g f mi mc npi' st' r)
       | (Err e, st', npi', r) => ([], Failed e, st', npi', r)
       | (Panic p, st', npi', r) => ([], Crashed p, st', npi', r)
       end.
Proof. reflexivity. Qed.

Lemma drain_fuel_irrel_gen f1 : forall f2 st npi buf,
  (gmeas st buf < f1)%nat -> (gmeas st buf < f2)%nat ->
  drain false f1 mi mc npi st buf = drain false f2 mi mc npi st buf.
Proof.
  induction f1 as [|f1 IH]; intros f2 st npi buf H1 H2; [lia|]. destruct f2 as [|f2]; [lia|].
  rewrite !drain_S. cbn [andb].
  destruct (decode_step mi mc npi st buf) as [[[[[it|]|e|p] st'] npi'] r] eqn:E; try reflexivity.
  apply step_item_gmeas in E. f_equal. apply IH; lia.
Qed.

Lemma drain_wf f : forall st npi buf its o st1 npi1 r1,
  dstate_wf st = true -> drain false f mi mc npi st buf = (its, o, st1, npi1, r1) -> dstate_wf st1 = true.
Proof.
  induction f as [|f IH]; intros st npi buf its o st1 npi1 r1 W D.
  - injection D as <- <- <- <- <-. exact W.
  - rewrite drain_S in D. cbn [andb] in D. pose proof (v5_wf_preserved mi mc npi st buf W) as W'.
    destruct (decode_step mi mc npi st buf) as [[[[[it|]|e|p] st'] npi'] r] eqn:E; cbn [dr_state fst snd] in W'.
    + destruct (drain false f mi mc npi' st' r) as [[[[its' o'] st2] npi2] r2] eqn:D'.
      cbn [rr_app] in D. injection D as <- <- <- <- <-. exact (IH _ _ _ _ _ _ _ _ W' D').
    + injection D as <- <- <- <- <-. exact W'.
    + injection D as <- <- <- <- <-. exact W'.
    + injection D as <- <- <- <- <-. exact W'.
Qed.

(* ================================================================== one-shot semantics *)
Definition sem (acc : list decoded) (npi : bool) (st : dstate) (buf : bytes) : run_result :=
  obs acc (drain false (drain_fuel buf) mi mc npi st buf).

Lemma sem_item acc npi st b it st' npi' r :
  decode_step mi mc npi st b = (Ok (Some it), st', npi', r) ->
  sem acc npi st b = sem (nstep acc it) npi' st' r.
Proof.
  intros E. unfold sem. change (drain_fuel b) with (S (S (length b))). rewrite drain_S. cbn [andb].
  rewrite E. rewrite obs_rr_app.
  cbn [nfold fold_left]. f_equal. apply step_item_gmeas in E.
  apply drain_fuel_irrel_gen; [|apply gmeas_fuel]. unfold gmeas in *. destruct st, st'; lia.
Qed.

Lemma sem_err acc npi st b e st' npi' r :
  decode_step mi mc npi st b = (Err e, st', npi', r) ->
  sem acc npi st b = obs acc ([], Failed e, st', npi', r).
Proof. intros E. unfold sem, drain_fuel. rewrite drain_S. cbn [andb]. rewrite E. reflexivity. Qed.

Lemma sem_none acc npi st b st' npi' r :
  decode_step mi mc npi st b = (Ok None, st', npi', r) ->
  sem acc npi st b = obs acc ([], Blocked, st', npi', r).
Proof. intros E. unfold sem, drain_fuel. rewrite drain_S. cbn [andb]. rewrite E. reflexivity. Qed.

Lemma sem_same_step acc npi st b st2 b2 :
  decode_step mi mc npi st b = decode_step mi mc npi st2 b2 -> sem acc npi st b = sem acc npi st2 b2.
Proof.
  intros H. destruct (decode_step mi mc npi st2 b2) as [[[[[it|]|e|p] st'] npi'] r] eqn:E.
  - rewrite (sem_item _ _ _ _ _ _ _ _ H), (sem_item _ _ _ _ _ _ _ _ E). reflexivity.
  - rewrite (sem_none _ _ _ _ _ _ _ H), (sem_none _ _ _ _ _ _ _ E). reflexivity.
  - rewrite (sem_err _ _ _ _ _ _ _ _ H), (sem_err _ _ _ _ _ _ _ _ E). reflexivity.
  - unfold sem, drain_fuel. rewrite !drain_S. cbn [andb]. rewrite H, E. reflexivity.
Qed.

(* ------------------------------------------------------------------ the payload phase *)
Lemma payload_step_all npi rem t :
  rem <= len t ->
  decode_step mi mc npi (PublishPayload rem) t =
  (Ok (Some (DPayloadChunk (firstn (N.to_nat rem) t) true)), FrameHeader, npi, skipn (N.to_nat rem) t).
Proof.
  intros H. cbn [decode_step]. rewrite step_publish_payload_eq. cbv zeta.
  replace (rem <=? len t) with true by lia. cbn [orb].
  replace (N.min (len t) rem) with rem by lia. rewrite llen_firstn.
  replace (rem - N.min rem (len t)) with 0 by lia. reflexivity.
Qed.

Lemma firstn_len_all (t : bytes) : firstn (N.to_nat (len t)) t = t.
Proof. rewrite llen_length. apply firstn_all. Qed.
Lemma skipn_len_all (t : bytes) : skipn (N.to_nat (len t)) t = [].
Proof. rewrite llen_length. apply skipn_all. Qed.

Lemma sem_payload A npi rem t :
  0 < rem ->
  sem A npi (PublishPayload rem) t =
  if rem <=? len t
  then sem (nstep A (DPayloadChunk (firstn (N.to_nat rem) t) true)) npi FrameHeader (skipn (N.to_nat rem) t)
  else obs A ([], Blocked, PublishPayload rem, npi, t).
Proof.
  intros Hr. destruct (rem <=? len t) eqn:E.
  - apply sem_item. apply payload_step_all. lia.
  - destruct (negb (mc =? 0) && (mc <=? len t)) eqn:C.
    + assert (S1 : decode_step mi mc npi (PublishPayload rem) t =
                   (Ok (Some (DPayloadChunk t false)), PublishPayload (rem - len t), npi, [])).
      { cbn [decode_step]. rewrite step_publish_payload_eq. cbv zeta. rewrite E, C. cbn [orb].
        replace (N.min (len t) rem) with (len t) by lia. rewrite firstn_len_all, skipn_len_all.
        replace (0 <? rem - len t) with true by lia. reflexivity. }
      assert (S2 : decode_step mi mc npi (PublishPayload (rem - len t)) [] =
                   (Ok None, PublishPayload (rem - len t), npi, [])).
      { cbn [decode_step]. rewrite step_publish_payload_eq. cbv zeta. rewrite llen_nil.
        replace (rem - len t <=? 0) with false by lia.
        replace (negb (mc =? 0) && (mc <=? 0)) with false by lia. reflexivity. }
      rewrite (sem_item _ _ _ _ _ _ _ _ S1), (sem_none _ _ _ _ _ _ _ S2).
      cbn [obs app nfold fold_left]. rewrite nstep_merge, app_nil_r, llen_nil, N.sub_0_r. reflexivity.
    + apply sem_none. cbn [decode_step]. rewrite step_publish_payload_eq. cbv zeta. rewrite E, C. reflexivity.
Qed.

(* a chunk already emitted can be put back in front of the buffer *)
Lemma sem_absorb A c eof rem t npi :
  0 < rem + len c -> eof = negb (0 <? rem) ->
  sem (nstep A (DPayloadChunk c eof)) npi (Kst rem) t = sem A npi (PublishPayload (rem + len c)) (c ++ t).
Proof.
  intros Hp He. rewrite (sem_payload A npi (rem + len c) (c ++ t) Hp). rewrite llen_app.
  assert (F : firstn (N.to_nat (rem + len c)) (c ++ t) = c ++ firstn (N.to_nat rem) t).
  { rewrite firstn_app. rewrite firstn_all2 by (unfold len; lia). f_equal. f_equal. unfold len. lia. }
  assert (Sk : skipn (N.to_nat (rem + len c)) (c ++ t) = skipn (N.to_nat rem) t).
  { rewrite skipn_app. rewrite skipn_all2 by (unfold len; lia). cbn [app]. f_equal. unfold len. lia. }
  unfold Kst. destruct (0 <? rem) eqn:R; cbn [negb] in He; subst eof.
  - rewrite (sem_payload _ npi rem t) by lia.
    destruct (rem <=? len t) eqn:E.
    + replace (rem + len c <=? len c + len t) with true by lia. rewrite F, Sk, nstep_merge. reflexivity.
    + replace (rem + len c <=? len c + len t) with false by lia.
      cbn [obs app nfold fold_left]. rewrite nstep_merge, llen_app. do 4 f_equal. lia.
  - assert (rem = 0) by lia. subst rem. replace (0 + len c <=? len c + len t) with true by lia.
    rewrite F, Sk. cbn [firstn skipn N.to_nat]. rewrite app_nil_r. reflexivity.
Qed.

(* ================================================================== one step on a prefix of the buffer *)
Definition ext_ok (npi : bool) (st : dstate) (s x : bytes) (acc : list decoded) : Prop :=
  match decode_step mi mc npi st s with
  | (Ok (Some it), st', npi', r) => sem (nstep acc it) npi' st' (r ++ x) = sem acc npi st (s ++ x)
  | (Ok None, st', npi', r) => sem acc npi' st' (r ++ x) = sem acc npi st (s ++ x)
  | (Err e, st', npi', r) => obs acc ([], Failed e, st', npi', r ++ x) = sem acc npi st (s ++ x)
  | (Panic _, _, _, _) => True
  end.

(* the step on the longer buffer takes the same decision and leaves the same rest plus x *)
Lemma ext_same npi st s x acc res st' npi' r :
  decode_step mi mc npi st s = (res, st', npi', r) -> res <> Ok None ->
  decode_step mi mc npi st (s ++ x) = (res, st', npi', r ++ x) -> ext_ok npi st s x acc.
Proof.
  intros E Hn Ex. unfold ext_ok. rewrite E. destruct res as [[it|]|e|p]; try exact I.
  - symmetry. apply (sem_item _ _ _ _ _ _ _ _ Ex).
  - congruence.
  - symmetry. apply (sem_err _ _ _ _ _ _ _ _ Ex).
Qed.

(* the step blocks without touching anything *)
Lemma ext_blocked_refl npi st s x acc :
  decode_step mi mc npi st s = (Ok None, st, npi, s) -> ext_ok npi st s x acc.
Proof. intros E. unfold ext_ok. rewrite E. reflexivity. Qed.

Lemma ext_transfer npi st s st2 s2 x acc :
  decode_step mi mc npi st s = decode_step mi mc npi st2 s2 ->
  decode_step mi mc npi st (s ++ x) = decode_step mi mc npi st2 (s2 ++ x) ->
  ext_ok npi st2 s2 x acc -> ext_ok npi st s x acc.
Proof.
  intros E Ex H. unfold ext_ok in *. rewrite E.
  rewrite (sem_same_step acc npi st (s ++ x) st2 (s2 ++ x) Ex).
  destruct (decode_step mi mc npi st2 s2) as [[[[[it|]|e|p] st'] npi'] r]; exact H.
Qed.

(* --- Frame *)
Lemma ext_frame npi fb rl s x acc : ext_ok npi (Frame fb rl) s x acc.
Proof.
  destruct (N.leb_spec rl (len s)) as [Hl|Hl].
  - pose proof (step_frame_app npi fb rl s x Hl) as A.
    pose proof (v5_no_stall_frame mi mc npi fb rl s Hl) as NS. cbn [decode_step] in NS.
    destruct (step_frame npi fb rl s) as [[[res st'] npi'] r] eqn:E. cbn [dr_res dr_state dr_npi dr_src fst snd] in *.
    eapply ext_same; cbn [decode_step]; eauto.
  - apply ext_blocked_refl. cbn [decode_step]. apply step_frame_blocked. exact Hl.
Qed.

(* --- PublishPayload *)
Lemma ext_payload npi rem s x acc : ext_ok npi (PublishPayload rem) s x acc.
Proof.
  destruct (N.eq_dec rem 0) as [->|Hr].
  - eapply ext_same.
    + apply payload_step_all. lia.
    + discriminate.
    + rewrite (payload_step_all npi 0 (s ++ x)) by lia. reflexivity.
  - destruct ((rem <=? len s) || (negb (mc =? 0) && (mc <=? len s))) eqn:C.
    + unfold ext_ok. cbn [decode_step]. rewrite step_publish_payload_eq. cbv zeta. rewrite C.
      set (m := N.min (len s) rem). set (c := firstn (N.to_nat m) s).
      change (if 0 <? rem - len c then PublishPayload (rem - len c) else FrameHeader) with (Kst (rem - len c)).
      assert (Lc : len c = m) by (unfold c, m; rewrite llen_firstn; lia).
      rewrite (sem_absorb acc c _ (rem - len c) (skipn (N.to_nat m) s ++ x) npi) by (reflexivity || lia).
      replace (rem - len c + len c) with rem by (unfold m in Lc; lia).
      rewrite app_assoc. unfold c. rewrite firstn_skipn. reflexivity.
    + apply ext_blocked_refl. cbn [decode_step]. rewrite step_publish_payload_eq. cbv zeta. rewrite C. reflexivity.
Qed.

(* --- PublishProperties *)
Lemma props_item_canon npi pl fb rl s p :
  pl <= rl -> pl <= len s -> publish_decode (firstn (N.to_nat pl) s) fb (rl - pl) = Ok p ->
  exists pay st' r,
    step_publish_properties mc npi pl fb rl s = (Ok (Some (DPublish p pay rl)), st', npi, r) /\
    forall acc y, sem (DPublish p pay rl :: acc) npi st' (r ++ y) =
                  sem (DPublish p [] rl :: acc) npi (Kst (rl - pl)) (skipn (N.to_nat pl) s ++ y).
Proof.
  intros Hw Hl Ep. rewrite step_publish_properties_eq. cbv zeta.
  replace (len s <? pl) with false by lia. replace (pl <=? rl) with true by lia. rewrite Ep.
  set (t := skipn (N.to_nat pl) s). set (L := rl - pl).
  destruct ((L <=? len t) || (mc =? 0) || (mc <=? len t)) eqn:C.
  - set (m := N.min (len t) L). set (pay := firstn (N.to_nat m) t).
    exists pay, (Kst (L - len pay)), (skipn (N.to_nat m) t). split; [reflexivity|]. intros acc y.
    assert (Lp : len pay = m) by (unfold pay, m; rewrite llen_firstn; lia).
    destruct (N.eq_dec L 0) as [L0|L0].
    + assert (m = 0) by (unfold m; lia). unfold pay. rewrite H, L0. cbn [N.to_nat firstn skipn].
      rewrite llen_nil. reflexivity.
    + change (DPublish p pay rl :: acc)
        with (nstep (DPublish p [] rl :: acc) (DPayloadChunk pay (negb (0 <? L - len pay)))).
      rewrite sem_absorb by (reflexivity || (unfold m in Lp; lia)).
      replace (L - len pay + len pay) with L by (unfold m in Lp; lia).
      unfold Kst. replace (0 <? L) with true by lia.
      rewrite app_assoc. unfold pay. rewrite firstn_skipn. reflexivity.
  - exists [], (PublishPayload L), t. split; [reflexivity|]. intros acc y.
    unfold Kst. replace (0 <? L) with true by lia. reflexivity.
Qed.

Lemma ext_props npi pl fb rl s x acc : pl <= rl -> ext_ok npi (PublishProperties pl fb rl) s x acc.
Proof.
  intros Hw. destruct (N.ltb_spec (len s) pl) as [Hl|Hl].
  - apply ext_blocked_refl. cbn [decode_step]. rewrite step_publish_properties_eq. cbv zeta.
    replace (len s <? pl) with true by lia. reflexivity.
  - assert (F : firstn (N.to_nat pl) (s ++ x) = firstn (N.to_nat pl) s)
      by (apply firstn_app_le; unfold len in *; lia).
    assert (Sk : skipn (N.to_nat pl) (s ++ x) = skipn (N.to_nat pl) s ++ x)
      by (apply skipn_app_le; unfold len in *; lia).
    destruct (publish_decode (firstn (N.to_nat pl) s) fb (rl - pl)) as [p|e|q] eqn:Ep.
    + assert (Hlx : pl <= len (s ++ x)) by (rewrite llen_app; lia).
      destruct (props_item_canon npi pl fb rl s p Hw Hl Ep) as (pay & st1 & r1 & E1 & H1).
      rewrite <- F in Ep.
      destruct (props_item_canon npi pl fb rl (s ++ x) p Hw Hlx Ep) as (pay2 & st2 & r2 & E2 & H2).
      unfold ext_ok. cbn [decode_step]. rewrite E1.
      assert (E2' : decode_step mi mc npi (PublishProperties pl fb rl) (s ++ x) =
                    (Ok (Some (DPublish p pay2 rl)), st2, npi, r2)) by exact E2.
      rewrite (sem_item _ _ _ _ _ _ _ _ E2'). cbn [nstep].
      rewrite (H1 acc x). specialize (H2 acc []). rewrite !app_nil_r in H2. rewrite H2, Sk. reflexivity.
    + apply (ext_same npi _ s x acc (Err e) (PublishProperties pl fb rl) npi (skipn (N.to_nat pl) s)).
      * cbn [decode_step]. rewrite step_publish_properties_eq. cbv zeta.
        replace (len s <? pl) with false by lia. replace (pl <=? rl) with true by lia. rewrite Ep. reflexivity.
      * discriminate.
      * cbn [decode_step]. rewrite step_publish_properties_eq. cbv zeta.
        rewrite llen_app. replace (len s + len x <? pl) with false by lia.
        replace (pl <=? rl) with true by lia. rewrite F, Ep, Sk. reflexivity.
    + unfold ext_ok. cbn [decode_step]. rewrite step_publish_properties_eq. cbv zeta.
      replace (len s <? pl) with false by lia. replace (pl <=? rl) with true by lia. rewrite Ep. exact I.
Qed.

(* --- PublishHeader: packet_header_size is monotone in the buffer *)
Lemma slice_mono len1 rl (s x : bytes) :
  len1 <= len s -> len1 < rl ->
  exists z,
    firstn (N.to_nat (N.min (len s + len x) rl - len1)) (skipn (N.to_nat len1) (s ++ x)) =
    firstn (N.to_nat (N.min (len s) rl - len1)) (skipn (N.to_nat len1) s) ++ z /\
    (rl <= len s -> z = []).
Proof.
  intros H1 H2. rewrite skipn_app_le by (unfold len in *; lia).
  set (u := skipn (N.to_nat len1) s).
  assert (Lu : length u = (length s - N.to_nat len1)%nat) by (unfold u; apply skipn_length).
  destruct (N.leb_spec rl (len s)) as [Hr|Hr].
  - exists []. split; [|reflexivity]. rewrite app_nil_r.
    replace (N.min (len s + len x) rl) with rl by lia. replace (N.min (len s) rl) with rl by lia.
    apply firstn_app_le. unfold len in *. lia.
  - exists (firstn (N.to_nat (N.min (len s + len x) rl - len1) - length u) x). split; [|lia].
    rewrite firstn_app. f_equal.
    rewrite !firstn_all2; [reflexivity| |]; unfold len in *; lia.
Qed.

Lemma phs_mono s x fl rl :
  packet_header_size s fl rl <> Ok None -> packet_header_size (s ++ x) fl rl = packet_header_size s fl rl.
Proof.
  unfold packet_header_size.
  destruct (2 <=? rl) eqn:E2; cbn [ensure bind]; [|reflexivity].
  destruct s as [|b0 [|b1 s']]; [congruence|congruence|].
  cbn [app]. change (b0 :: b1 :: s' ++ x) with ((b0 :: b1 :: s') ++ x).
  remember (b0 :: b1 :: s') as s eqn:Es.
  destruct (qos_ok (flags_qos fl)); cbn [ensure bind]; [|reflexivity].
  remember (if flags_qos fl =? 0 then b0 * 256 + b1 + 2 else b0 * 256 + b1 + 2 + 2) as len1 eqn:El.
  destruct (len1 <? rl) eqn:E1; cbn [ensure bind]; [|reflexivity].
  rewrite llen_app. destruct (len s <? len1) eqn:E3; [congruence|].
  replace (len s + len x <? len1) with false by lia.
  unfold slice. rewrite llen_app.
  replace ((len1 <=? N.min (len s + len x) rl) && (N.min (len s + len x) rl <=? len s + len x)) with true by lia.
  replace ((len1 <=? N.min (len s) rl) && (N.min (len s) rl <=? len s)) with true by lia.
  cbn [bind]. destruct (slice_mono len1 rl s x) as (z & -> & Hz); [lia|lia|].
  set (sl := firstn (N.to_nat (N.min (len s) rl - len1)) (skipn (N.to_nat len1) s)).
  destruct (dec_vi_opt sl) as [[[pl pos]|]|e|p] eqn:D; cbn [bind].
  - destruct (dec_vi_opt_app_some _ z _ _ D) as [-> _]. reflexivity.
  - destruct (N.min (len s) rl <? rl) eqn:E4; cbn [ensure bind]; [congruence|]. intros _.
    rewrite Hz by lia. rewrite app_nil_r, D. cbn [bind].
    replace (N.min (len s + len x) rl <? rl) with false by lia. reflexivity.
  - rewrite (dec_vi_opt_app_err _ z _ D). reflexivity.
  - pose proof (dec_vi_opt_np sl) as T. rewrite D in T. contradiction.
Qed.

Lemma ext_header npi fb rl s x acc : ext_ok npi (PublishHeader fb rl) s x acc.
Proof.
  destruct (packet_header_size s fb rl) as [[l|]|e|p] eqn:E.
  - assert (Ex : packet_header_size (s ++ x) fb rl = Ok (Some l)) by (rewrite phs_mono; congruence).
    apply (ext_transfer npi _ s (PublishProperties l fb rl) s).
    + cbn [decode_step]. rewrite step_publish_header_eq, E. reflexivity.
    + cbn [decode_step]. rewrite step_publish_header_eq, Ex. reflexivity.
    + apply ext_props. eapply packet_header_size_le; eassumption.
  - apply ext_blocked_refl. cbn [decode_step]. rewrite step_publish_header_eq, E. reflexivity.
  - assert (Ex : packet_header_size (s ++ x) fb rl = Err e) by (rewrite phs_mono; congruence).
    apply (ext_same npi _ s x acc (Err e) (PublishHeader fb rl) npi s).
    + cbn [decode_step]. rewrite step_publish_header_eq, E. reflexivity.
    + discriminate.
    + cbn [decode_step]. rewrite step_publish_header_eq, Ex. reflexivity.
  - unfold ext_ok. cbn [decode_step]. rewrite step_publish_header_eq, E. exact I.
Qed.

(* --- FrameHeader *)
Lemma ext_fh npi s x acc : ext_ok npi FrameHeader s x acc.
Proof.
  destruct (sfh_cases_gen mi mc npi s) as [E0|[(e & E0 & Ex)|(fb & rl & k & Hk & E0 & Ex)]].
  - apply ext_blocked_refl. exact E0.
  - eapply ext_same; cbn [decode_step]; [exact E0|discriminate|apply Ex].
  - unfold hdr_cont in *. destruct (is_publish fb).
    + apply (ext_transfer npi _ s (PublishHeader fb rl) (skipn k s)); [exact E0|apply Ex|apply ext_header].
    + apply (ext_transfer npi _ s (Frame fb rl) (skipn k s)); [exact E0|apply Ex|apply ext_frame].
Qed.

Lemma ext_all npi st s x acc : dstate_wf st = true -> ext_ok npi st s x acc.
Proof.
  intros W. destruct st as [|fb rl|fb rl|pl fb rl|rem].
  - apply ext_fh.
  - apply ext_frame.
  - apply ext_header.
  - apply ext_props. cbn [dstate_wf] in W. lia.
  - apply ext_payload.
Qed.

(* ================================================================== the junction *)
(* what the fragmented run observes: drain s, then (if blocked) go on with what is left plus x *)
Definition frag_obs (acc : list decoded) (R : run_result) (x : bytes) : run_result :=
  let '(its, o, st, npi, r) := R in
  match o with
  | Blocked => sem (nfold acc its) npi st (r ++ x)
  | _ => obs acc (its, o, st, npi, r ++ x)
  end.

Lemma frag_obs_rr_app acc l R x : frag_obs acc (rr_app l R) x = frag_obs (nfold acc l) R x.
Proof.
  destruct R as [[[[its o] st] npi] r]. cbn [rr_app frag_obs].
  destruct o; try (rewrite nfold_app; reflexivity);
    apply (obs_rr_app acc l (its, _, st, npi, r ++ x)).
Qed.

Lemma frag_junction f : forall st npi s, dstate_wf st = true -> (gmeas st s < f)%nat ->
  forall acc x, frag_obs acc (drain false f mi mc npi st s) x = sem acc npi st (s ++ x).
Proof.
  induction f as [|f IH]; intros st npi s W Hf acc x; [lia|].
  rewrite drain_S. cbn [andb]. pose proof (ext_all npi st s x acc W) as X. unfold ext_ok in X.
  pose proof (v5_wf_preserved mi mc npi st s W) as W'.
  pose proof (v5_decode_total mi mc npi st s W) as T.
  destruct (decode_step mi mc npi st s) as [[[[[it|]|e|p] st'] npi'] r] eqn:E;
    cbn [dr_state dr_res fst snd] in *.
  - rewrite frag_obs_rr_app. cbn [nfold fold_left]. rewrite IH; [exact X|exact W'|].
    apply step_item_gmeas in E. lia.
  - exact X.
  - exact X.
  - contradiction.
Qed.

(* ================================================================== feeding chunk by chunk *)
Lemma feed_cons g npi st buf c cs :
  feed g mi mc npi st buf (c :: cs) =
  match drain g (drain_fuel (buf ++ c)) mi mc npi st (buf ++ c) with
  | (its, Blocked, st', npi', r) => rr_app its (feed g mi mc npi' st' r cs)
  | (its, o, st', npi', r) => (its, o, st', npi', r ++ concat cs)
  end.
Proof. reflexivity. Qed.

Lemma feed_obs : forall cs c st npi buf acc, dstate_wf st = true ->
  obs acc (feed false mi mc npi st buf (c :: cs)) = sem acc npi st (buf ++ concat (c :: cs)).
Proof.
  induction cs as [|c' cs IH]; intros c st npi buf acc W.
  - rewrite feed_cons. cbn [concat feed]. rewrite !app_nil_r. unfold sem.
    destruct (drain false (drain_fuel (buf ++ c)) mi mc npi st (buf ++ c)) as [[[[its o] st1] npi1] r1].
    destruct o; cbn [rr_app]; rewrite app_nil_r; reflexivity.
  - rewrite feed_cons. change (concat (c :: c' :: cs)) with (c ++ concat (c' :: cs)). rewrite app_assoc.
    pose proof (frag_junction _ st npi (buf ++ c) W (gmeas_fuel st (buf ++ c)) acc (concat (c' :: cs))) as J.
    destruct (drain false (drain_fuel (buf ++ c)) mi mc npi st (buf ++ c)) as [[[[its o] st1] npi1] r1] eqn:D.
    cbn [frag_obs] in J. destruct o; try exact J.
    rewrite obs_rr_app, IH; [exact J|]. exact (drain_wf _ _ _ _ _ _ _ _ _ W D).
Qed.

End WithCfg.

(* ================================================================== C10 with PUBLISH frames *)
Theorem v5_frag_independent_publish mi mc npi chunks :
  observe (feed false mi mc npi FrameHeader [] chunks) =
  observe (feed false mi mc npi FrameHeader [] [concat chunks]).
Proof.
  unfold observe. destruct chunks as [|c cs]; [reflexivity|].
  rewrite !feed_obs by reflexivity. cbn [concat]. rewrite !app_nil_r. reflexivity.
Qed.

(* the same from any state satisfying the invariant and any leftover buffer (at least one chunk) *)
Theorem v5_frag_independent_publish_from mi mc npi st buf c cs :
  dstate_wf st = true ->
  observe (feed false mi mc npi st buf (c :: cs)) =
  observe (feed false mi mc npi st buf [concat (c :: cs)]).
Proof.
  intros W. unfold observe. rewrite !feed_obs by exact W. cbn [concat]. rewrite !app_nil_r. reflexivity.
Qed.

(* ================================================================== the strict normaliser
   [nstep_s] merges a chunk only into a DPublish; a chunk with no open publish is kept as it is.
   On runs that start in a state whose open message (if any) is at the head of the accumulator --
   in particular on every run from FrameHeader -- no such stray chunk exists and the two
   normalisers agree. *)
Definition nstep_s (acc : list decoded) (it : decoded) : list decoded :=
  match it with
  | DPayloadChunk c eof =>
    match acc with
    | DPublish p pl sz :: acc' => DPublish p (pl ++ c) sz :: acc'
    | _ => it :: acc
    end
  | _ => it :: acc
  end.
Definition nfold_s (acc : list decoded) (its : list decoded) : list decoded := fold_left nstep_s its acc.
Definition norm_items_s (its : list decoded) : list decoded := rev (nfold_s [] its).
Definition obs_s (acc : list decoded) (R : run_result) : run_result :=
  let '(its, o, st, npi, buf) := R in
  match o, st with
  | Blocked, PublishPayload rem =>
    (rev (nfold_s acc (its ++ [DPayloadChunk buf false])), Blocked, PublishPayload (rem - len buf), npi, [])
  | _, _ => (rev (nfold_s acc its), o, st, npi, buf)
  end.
Definition observe_s (R : run_result) : run_result := obs_s [] R.

Definition hd_pub (acc : list decoded) : bool :=
  match acc with DPublish _ _ _ :: _ => true | _ => false end.
Definition open_inv (st : dstate) (acc : list decoded) : Prop :=
  match st with PublishPayload _ => hd_pub acc = true | _ => True end.

Lemma open_any st acc : hd_pub acc = true -> open_inv st acc.
Proof. destruct st; cbn [open_inv]; auto. Qed.

Lemma step_frame_item_kind npi fb rl s it st' npi' r :
  step_frame npi fb rl s = (Ok (Some it), st', npi', r) -> exists p, it = DPacket p rl.
Proof.
  rewrite step_frame_eq. destruct (len s <? rl); [discriminate|].
  destruct (decode_packet fb (firstn (N.to_nat rl) s)); try discriminate. intros [= <- _ _ _]. eauto.
Qed.

Lemma step_props_item_kind mc npi pl fb rl s it st' npi' r :
  step_publish_properties mc npi pl fb rl s = (Ok (Some it), st', npi', r) -> exists p pay, it = DPublish p pay rl.
Proof.
  rewrite step_publish_properties_eq. cbv zeta.
  destruct (len s <? pl); [discriminate|]. destruct (pl <=? rl); [|discriminate].
  destruct (publish_decode (firstn (N.to_nat pl) s) fb (rl - pl)); try discriminate.
  match goal with |- context [if ?c then _ else _] => destruct c end; intros [= <- _ _ _]; eauto.
Qed.

Lemma step_header_item_kind mc npi fb rl s it st' npi' r :
  step_publish_header mc npi fb rl s = (Ok (Some it), st', npi', r) -> exists p pay, it = DPublish p pay rl.
Proof.
  rewrite step_publish_header_eq. destruct (packet_header_size s fb rl) as [[l|]| |]; try discriminate.
  apply step_props_item_kind.
Qed.

(* an item step: the two normalisers agree on it and the invariant is kept *)
Lemma step_open_item mi mc npi st s it st' npi' r acc :
  open_inv st acc -> decode_step mi mc npi st s = (Ok (Some it), st', npi', r) ->
  nstep_s acc it = nstep acc it /\ open_inv st' (nstep acc it).
Proof.
  intros O E. destruct st as [|fb rl|fb rl|pl fb rl|rem]; cbn [decode_step] in E.
  - destruct (sfh_cases_gen mi mc npi s) as [E0|[(e & E0 & _)|(fb & rl & k & Hk & E0 & _)]];
      try (rewrite E0 in E; discriminate).
    rewrite E0 in E. unfold hdr_cont in E. destruct (is_publish fb).
    + destruct (step_header_item_kind _ _ _ _ _ _ _ _ _ E) as (p & pay & ->).
      split; [reflexivity|]. apply open_any. reflexivity.
    + destruct (step_frame_item_kind _ _ _ _ _ _ _ _ E) as (p & ->).
      destruct (step_frame_item_inv _ _ _ _ _ _ _ _ E) as (_ & -> & _). split; [reflexivity|exact I].
  - destruct (step_frame_item_kind _ _ _ _ _ _ _ _ E) as (p & ->).
    destruct (step_frame_item_inv _ _ _ _ _ _ _ _ E) as (_ & -> & _). split; [reflexivity|exact I].
  - destruct (step_header_item_kind _ _ _ _ _ _ _ _ _ E) as (p & pay & ->).
    split; [reflexivity|]. apply open_any. reflexivity.
  - destruct (step_props_item_kind _ _ _ _ _ _ _ _ _ _ E) as (p & pay & ->).
    split; [reflexivity|]. apply open_any. reflexivity.
  - cbn [open_inv] in O. rewrite step_publish_payload_eq in E. cbv zeta in E.
    destruct ((rem <=? len s) || (negb (mc =? 0) && (mc <=? len s))); [|discriminate].
    injection E as <- _ _ _. destruct acc as [|[?|? ? ?|? ?] acc]; try discriminate.
    split; [reflexivity|]. apply open_any. reflexivity.
Qed.

(* a step that emits nothing does not enter the payload state *)
Lemma step_open_other mi mc npi st s res st' npi' r acc :
  open_inv st acc -> decode_step mi mc npi st s = (res, st', npi', r) ->
  (forall it, res <> Ok (Some it)) -> open_inv st' acc.
Proof.
  intros O E Hn.
  assert (PP : forall npi pl fb rl b res st' npi' r,
             step_publish_properties mc npi pl fb rl b = (res, st', npi', r) ->
             (forall it, res <> Ok (Some it)) -> st' = PublishProperties pl fb rl).
  { intros npi0 pl fb rl b res0 st0 npi0' r0. rewrite step_publish_properties_eq. cbv zeta.
    destruct (len b <? pl); [intros [= _ <- _ _]; reflexivity|].
    destruct (pl <=? rl); [|intros [= _ <- _ _]; reflexivity].
    destruct (publish_decode (firstn (N.to_nat pl) b) fb (rl - pl)); try (intros [= _ <- _ _]; reflexivity).
    match goal with |- context [if ?c then _ else _] => destruct c end;
      intros [= <- _ _ _] H; exfalso; eapply H; reflexivity. }
  assert (PH : forall npi fb rl b res st' npi' r,
             step_publish_header mc npi fb rl b = (res, st', npi', r) ->
             (forall it, res <> Ok (Some it)) ->
             st' = PublishHeader fb rl \/ exists l, st' = PublishProperties l fb rl).
  { intros npi0 fb rl b res0 st0 npi0' r0. rewrite step_publish_header_eq.
    destruct (packet_header_size b fb rl) as [[l|]| |]; try (intros [= _ <- _ _]; left; reflexivity).
    intros H1 H2. right. exists l. eapply PP; eassumption. }
  assert (FR : forall npi fb rl b res st' npi' r,
             step_frame npi fb rl b = (res, st', npi', r) ->
             (forall it, res <> Ok (Some it)) -> st' = Frame fb rl).
  { intros npi0 fb rl b res0 st0 npi0' r0. rewrite step_frame_eq.
    destruct (len b <? rl); [intros [= _ <- _ _]; reflexivity|].
    destruct (decode_packet fb (firstn (N.to_nat rl) b)); try (intros [= _ <- _ _]; reflexivity).
    intros [= <- _ _ _] H; exfalso; eapply H; reflexivity. }
  destruct st as [|fb rl|fb rl|pl fb rl|rem]; cbn [decode_step] in E.
  - destruct (sfh_cases_gen mi mc npi s) as [E0|[(e & E0 & _)|(fb & rl & k & Hk & E0 & _)]].
    + rewrite E0 in E. injection E as _ <- _ _. exact I.
    + rewrite E0 in E. injection E as _ <- _ _. exact I.
    + rewrite E0 in E. unfold hdr_cont in E. destruct (is_publish fb).
      * destruct (PH _ _ _ _ _ _ _ _ E Hn) as [->|[l ->]]; exact I.
      * rewrite (FR _ _ _ _ _ _ _ _ E Hn). exact I.
  - rewrite (FR _ _ _ _ _ _ _ _ E Hn). exact I.
  - destruct (PH _ _ _ _ _ _ _ _ E Hn) as [->|[l ->]]; exact I.
  - rewrite (PP _ _ _ _ _ _ _ _ _ E Hn). exact I.
  - rewrite step_publish_payload_eq in E. cbv zeta in E.
    destruct ((rem <=? len s) || (negb (mc =? 0) && (mc <=? len s))).
    + injection E as <- _ _ _. exfalso. eapply Hn. reflexivity.
    + injection E as _ <- _ _. exact O.
Qed.

Lemma drain_open mi mc f : forall st npi buf acc its o st1 npi1 r1,
  open_inv st acc -> drain false f mi mc npi st buf = (its, o, st1, npi1, r1) ->
  nfold_s acc its = nfold acc its /\ open_inv st1 (nfold acc its).
Proof.
  induction f as [|f IH]; intros st npi buf acc its o st1 npi1 r1 O D.
  - injection D as <- _ <- _ _. split; [reflexivity|exact O].
  - rewrite drain_S in D. cbn [andb] in D.
    destruct (decode_step mi mc npi st buf) as [[[[[it|]|e|p] st'] npi'] r] eqn:E.
    + destruct (drain false f mi mc npi' st' r) as [[[[its' o'] st2] npi2] r2] eqn:D'.
      cbn [rr_app app] in D. injection D as <- _ <- _ _.
      destruct (step_open_item _ _ _ _ _ _ _ _ _ _ O E) as (Hs & O').
      destruct (IH _ _ _ _ _ _ _ _ _ O' D') as (H1 & H2).
      unfold nfold_s, nfold in *. cbn [fold_left]. rewrite Hs. split; assumption.
    + injection D as <- _ <- _ _. split; [reflexivity|].
      eapply step_open_other; [exact O|exact E|discriminate].
    + injection D as <- _ <- _ _. split; [reflexivity|].
      eapply step_open_other; [exact O|exact E|discriminate].
    + injection D as <- _ <- _ _. split; [reflexivity|].
      eapply step_open_other; [exact O|exact E|discriminate].
Qed.

Lemma feed_open mi mc : forall cs st npi buf acc its o st1 npi1 r1,
  open_inv st acc -> feed false mi mc npi st buf cs = (its, o, st1, npi1, r1) ->
  nfold_s acc its = nfold acc its /\ open_inv st1 (nfold acc its).
Proof.
  induction cs as [|c cs IH]; intros st npi buf acc its o st1 npi1 r1 O D.
  - injection D as <- _ <- _ _. split; [reflexivity|exact O].
  - rewrite feed_cons in D.
    destruct (drain false (drain_fuel (buf ++ c)) mi mc npi st (buf ++ c)) as [[[[its' o'] st2] npi2] r2] eqn:D'.
    destruct (drain_open _ _ _ _ _ _ _ _ _ _ _ _ O D') as (H1 & H2).
    destruct o'; try (injection D as <- _ <- _ _; split; assumption).
    destruct (feed false mi mc npi2 st2 r2 cs) as [[[[its3 o3] st3] npi3] r3] eqn:D3.
    cbn [rr_app] in D. injection D as <- _ <- _ _.
    destruct (IH _ _ _ _ _ _ _ _ _ H2 D3) as (H3 & H4).
    unfold nfold_s, nfold in *. rewrite !fold_left_app, H1. split; assumption.
Qed.

Lemma observe_s_feed mi mc npi chunks :
  observe_s (feed false mi mc npi FrameHeader [] chunks) = observe (feed false mi mc npi FrameHeader [] chunks).
Proof.
  destruct (feed false mi mc npi FrameHeader [] chunks) as [[[[its o] st1] npi1] r1] eqn:D.
  destruct (feed_open mi mc chunks FrameHeader npi [] [] its o st1 npi1 r1 I D) as (H1 & H2).
  unfold observe_s, observe, obs_s, obs.
  destruct o; try (rewrite H1; reflexivity). destruct st1; try (rewrite H1; reflexivity).
  cbn [open_inv] in H2. unfold nfold_s, nfold in *. rewrite !fold_left_app, H1. cbn [fold_left].
  destruct (fold_left nstep its []) as [|[?|? ? ?|? ?] a]; try discriminate. reflexivity.
Qed.

(* C10 with PUBLISH frames, with the strict normaliser *)
Theorem v5_frag_independent_publish_strict mi mc npi chunks :
  observe_s (feed false mi mc npi FrameHeader [] chunks) =
  observe_s (feed false mi mc npi FrameHeader [] [concat chunks]).
Proof. rewrite !observe_s_feed. apply v5_frag_independent_publish. Qed.

(* the RAW results do depend on the fragmentation (which is why [observe] is needed) *)
Lemma v5_frag_independent_publish_raw_refuted :
  exists mi mc npi chunks,
    feed false mi mc npi FrameHeader [] chunks <> feed false mi mc npi FrameHeader [] [concat chunks].
Proof.
  exists 0, 0, false, [[48; 6; 0; 1; 97; 0; 1]; [2]]. vm_compute. discriminate.
Qed.

(* sanity: QoS0 publish, topic "a", payload 1 2 3 4 5, then PINGREQ; min_chunk 3, cut inside the payload *)
Example frag_publish_example :
  observe (feed false 0 3 false FrameHeader [] [[48; 9; 0; 1; 97; 0; 1]; [2; 3]; [4; 5; 192]; [0]]) =
  observe (feed false 0 3 false FrameHeader [] [[48; 9; 0; 1; 97; 0; 1; 2; 3; 4; 5; 192; 0]]).
Proof. vm_compute. reflexivity. Qed.

Print Assumptions v5_frag_independent_publish.
Print Assumptions v5_frag_independent_publish_from.
Print Assumptions v5_frag_independent_publish_strict.
Print Assumptions v5_frag_independent_publish_raw_refuted.
