From Coq Require Import ZArith ZifyN ZifyBool Lia.
From MV Require Import Base.Prelude Base.Res Base.VarInt.
Ltac Zify.zify_post_hook ::= Z.div_mod_to_equations.

Lemma enc_vi_some n : n <= VI_MAX -> exists b, enc_vi n = Some b.
Proof.
  unfold enc_vi, VI_MAX. intros H.
  destruct (n <=? 127) eqn:?; [eauto|].
  destruct (n <=? 16383) eqn:?; [eauto|].
  destruct (n <=? 2097151) eqn:?; [eauto|].
  destruct (n <=? 268435455) eqn:E; [eauto|]. lia.
Qed.

Lemma enc_vi_none n : VI_MAX < n -> enc_vi n = None.
Proof.
  unfold enc_vi, VI_MAX. intros H.
  destruct (n <=? 127) eqn:?; [lia|].
  destruct (n <=? 16383) eqn:?; [lia|].
  destruct (n <=? 2097151) eqn:?; [lia|].
  destruct (n <=? 268435455) eqn:E; [lia|]. reflexivity.
Qed.

(* round trip for all 2^28 values, consuming exactly the bytes produced *)
Lemma varint_roundtrip n b r : enc_vi n = Some b -> dec_vi (b ++ r) = Ok (n, r).
Proof.
  unfold enc_vi, VI_MAX. 
  destruct (n <=? 127) eqn:E1.
  { intros [= <-]. unfold dec_vi. cbn [app dec_vi_go].
    replace (n <? 128) with true by lia. f_equal. f_equal. lia. }
  destruct (n <=? 16383) eqn:E2.
  { intros [= <-]. unfold dec_vi. cbn [app dec_vi_go].
    replace (n mod 128 + 128 <? 128) with false by lia.
    replace (n / 128 <? 128) with true by lia. f_equal. f_equal. lia. }
  destruct (n <=? 2097151) eqn:E3.
  { intros [= <-]. unfold dec_vi. cbn [app dec_vi_go].
    replace (n mod 128 + 128 <? 128) with false by lia.
    replace ((n / 128) mod 128 + 128 <? 128) with false by lia.
    replace (n / 16384 <? 128) with true by lia. f_equal. f_equal. lia. }
  destruct (n <=? 268435455) eqn:E4; [|discriminate].
  intros [= <-]. unfold dec_vi. cbn [app dec_vi_go].
  replace (n mod 128 + 128 <? 128) with false by lia.
  replace ((n / 128) mod 128 + 128 <? 128) with false by lia.
  replace ((n / 16384) mod 128 + 128 <? 128) with false by lia.
  replace (n / 2097152 <? 128) with true by lia. f_equal. f_equal. lia.
Qed.

Lemma enc_vi_len n b : enc_vi n = Some b -> len b = var_int_len n.
Proof.
  unfold enc_vi, var_int_len, VI_MAX, len.
  destruct (n <=? 127) eqn:E1. { intros [= <-]. cbn. replace (n <? 128) with true by lia. reflexivity. }
  destruct (n <=? 16383) eqn:E2.
  { intros [= <-]. cbn. replace (n <? 128) with false by lia. replace (n <? 16384) with true by lia. reflexivity. }
  destruct (n <=? 2097151) eqn:E3.
  { intros [= <-]. cbn. replace (n <? 128) with false by lia. replace (n <? 16384) with false by lia.
    replace (n <? 2097152) with true by lia. reflexivity. }
  destruct (n <=? 268435455) eqn:E4; [|discriminate].
  intros [= <-]. cbn. replace (n <? 128) with false by lia. replace (n <? 16384) with false by lia.
  replace (n <? 2097152) with false by lia. replace (n <? 268435456) with true by lia. reflexivity.
Qed.

Lemma enc_vi_bytes_ok n b : enc_vi n = Some b -> bytes_ok b = true.
Proof.
  unfold enc_vi, VI_MAX, bytes_ok, byte_ok.
  destruct (n <=? 127) eqn:E1. { intros [= <-]. cbn. rewrite andb_true_r. lia. }
  destruct (n <=? 16383) eqn:E2.
  { intros [= <-]. cbn. rewrite andb_true_r. apply andb_true_iff; split; lia. }
  destruct (n <=? 2097151) eqn:E3.
  { intros [= <-]. cbn. rewrite andb_true_r. repeat (apply andb_true_iff; split); lia. }
  destruct (n <=? 268435455) eqn:E4; [|discriminate].
  intros [= <-]. cbn. rewrite andb_true_r. repeat (apply andb_true_iff; split); lia.
Qed.

(* var_int_len_from_size inverts n + var_int_len n, for every n the var-int can carry *)
Ltac vil_cases :=
  repeat match goal with
  | |- context [if ?a <? ?b then _ else _] => destruct (a <? b) eqn:?; try lia
  | |- context [if ?a <=? ?b then _ else _] => destruct (a <=? b) eqn:?; try lia
  end.

Lemma var_int_len_small m : m <= VI_MAX + 4 ->
  var_int_len m = if m <? 128 then 1 else if m <? 16384 then 2 else if m <? 2097152 then 3
                  else if m <? 268435456 then 4 else 5.
Proof.
  intros Hm. unfold var_int_len, VI_MAX in *. destruct (m <? 128); [reflexivity|].
  destruct (m <? 16384); [reflexivity|]. destruct (m <? 2097152); [reflexivity|].
  destruct (m <? 268435456) eqn:?; [reflexivity|]. destruct (m <? 34359738368) eqn:?; [reflexivity|lia].
Qed.

Ltac vl m k :=
  replace (var_int_len m) with k
    by (rewrite var_int_len_small by (unfold VI_MAX; lia); vil_cases; reflexivity).
Ltac okif := match goal with |- context [if ?c then _ else _] => replace c with true by lia end.

Lemma varlen_inverse n : n <= VI_MAX -> var_int_len_from_size (n + var_int_len n) = Ok n.
Proof.
  unfold VI_MAX. intros H. unfold var_int_len_from_size, sub_chk, bind.
  assert (Hv: n < 127 \/ n = 127 \/ 128 <= n < 16382 \/ 16382 <= n < 16384 \/
              16384 <= n < 2097149 \/ 2097149 <= n < 2097152 \/
              2097152 <= n < 268435452 \/ 268435452 <= n) by lia.
  destruct Hv as [Hn|[Hn|[Hn|[Hn|[Hn|[Hn|[Hn|Hn]]]]]]].
  - vl n 1. vl (n + 1) 1. okif. replace (n + 1 - 1 + 1) with (n + 1) by lia. vl (n + 1) 1. okif. f_equal; lia.
  - subst n. reflexivity.
  - vl n 2. vl (n + 2) 2. okif. replace (n + 2 - 2 + 1) with (n + 1) by lia. vl (n + 1) 2. okif. f_equal; lia.
  - vl n 2. vl (n + 2) 3. okif. replace (n + 2 - 3 + 1) with n by lia. vl n 2. okif. f_equal; lia.
  - vl n 3. vl (n + 3) 3. okif. replace (n + 3 - 3 + 1) with (n + 1) by lia. vl (n + 1) 3. okif. f_equal; lia.
  - vl n 3. vl (n + 3) 4. okif. replace (n + 3 - 4 + 1) with n by lia. vl n 3. okif. f_equal; lia.
  - vl n 4. vl (n + 4) 4. okif. replace (n + 4 - 4 + 1) with (n + 1) by lia. vl (n + 1) 4. okif. f_equal; lia.
  - vl n 4. vl (n + 4) 5. okif. replace (n + 4 - 5 + 1) with n by lia. vl n 4. okif. f_equal; lia.
Qed.

(* the decoder never panics and consumes 1..4 bytes *)
Lemma dec_vi_total s : match dec_vi s with Panic _ => False | _ => True end.
Proof.
  unfold dec_vi.
  destruct s as [|a [|b [|c [|d s]]]]; cbn [dec_vi_go];
    repeat match goal with |- context [if ?x then _ else _] => destruct x end; exact I.
Qed.

Lemma dec_vi_consumes s v r : dec_vi s = Ok (v, r) ->
  exists p, s = p ++ r /\ (1 <= length p <= 4)%nat.
Proof.
  unfold dec_vi. intros H.
  destruct s as [|a s]; cbn [dec_vi_go] in H; [discriminate|].
  destruct (a <? 128). { injection H as <- <-. exists [a]. cbn. split; [reflexivity|lia]. }
  destruct s as [|b s]; cbn [dec_vi_go] in H; [discriminate|].
  destruct (b <? 128). { injection H as <- <-. exists [a; b]. cbn. split; [reflexivity|lia]. }
  destruct s as [|c s]; cbn [dec_vi_go] in H; [discriminate|].
  destruct (c <? 128). { injection H as <- <-. exists [a; b; c]. cbn. split; [reflexivity|lia]. }
  destruct s as [|d s]; cbn [dec_vi_go] in H; [discriminate|].
  destruct (d <? 128); [|discriminate]. injection H as <- <-. exists [a; b; c; d]. cbn. split; [reflexivity|lia].
Qed.
