(* Proofs/SinkStop.v -- once the queues have been cleared (Flags::STOPPED, model: the io is closing or closed) no send
   is registered any more, also while a graceful close is still in progress and is_closed() is false. *)
From MV Require Import Base.Prelude Model.Sink Proofs.SinkInv.

Lemma wpr_stopped s id ack rem tag big :
  stopped s = true -> wait_publish_response s id ack rem tag big = (s, inr ST_DISCONNECTED).
Proof. intros H. unfold wait_publish_response. rewrite H. reflexivity. Qed.

Lemma wr_stopped s id ack tag :
  stopped s = true -> wait_response s id ack tag = (s, inr ST_DISCONNECTED).
Proof. intros H. unfold wait_response. rewrite H. reflexivity. Qed.

Lemma stopped_set_idx s i : stopped (set_idx s i) = stopped s.
Proof. reflexivity. Qed.

Lemma drop_sig_inflight s x : inflight (drop_sig s x) = inflight s.
Proof. apply (nc_inflight _ _ (drop_sig_nc s x)). Qed.

(* whatever kind of send reaches the registration step in a stopped state ends at once and queues nothing *)
Lemma proceed_stopped s x :
  stopped s = true ->
  (exists e, snd (proceed s x) = TDone e) /\ inflight (fst (proceed s x)) = inflight s.
Proof.
  intros H. unfold proceed.
  destruct ((tk x =? 3) || (tk x =? 4)).
  - unfold inner_subscribe.
    destruct (if tid x =? 0 then next_id s else Some (s, tid x)) as [[s1 id]|] eqn:E1.
    2:{ cbn [fst snd]. split; eauto. }
    assert (S1 : stopped s1 = true /\ inflight s1 = inflight s).
    { destruct (tid x =? 0).
      - apply next_id_spec in E1 as (_ & i & ->). split; [exact H|reflexivity].
      - injection E1 as <- _. split; [exact H|reflexivity]. }
    destruct S1 as [S1 I1]. rewrite (wr_stopped s1 id _ _ S1). cbn [fst snd]. split; eauto.
  - unfold inner_publish.
    destruct (if tid x =? 0 then next_id s else Some (s, tid x)) as [[s1 id]|] eqn:E1.
    2:{ cbn [fst snd]. split; eauto. apply drop_sig_inflight. }
    assert (S1 : stopped s1 = true /\ inflight s1 = inflight s).
    { destruct (tid x =? 0).
      - apply next_id_spec in E1 as (_ & i & ->). split; [exact H|reflexivity].
      - injection E1 as <- _. split; [exact H|reflexivity]. }
    destruct S1 as [S1 I1].
    destruct ((tk x =? 7) && negb match sig_of x with Some c => rx_alive s1 c | None => true end).
    { cbn [fst snd]. split; eauto. }
    rewrite (wpr_stopped s1 id _ _ _ _ S1). cbn [fst snd]. split; eauto.
    destruct (tk x =? 7); [|exact I1].
    rewrite (nc_inflight _ _ (send_opt_nc s1 (sig_of x) 0)). exact I1.
Qed.

Lemma fold_drop_waiters (l : list (N * option nat * N)) : forall st,
  waiters (fold_left (fun st e => drop_tx_opt st (snd (fst e))) l st) = waiters st.
Proof.
  induction l as [|e r IH]; intros st; cbn [fold_left]; [reflexivity|]. rewrite IH.
  unfold drop_tx_opt. destruct (snd (fst e)); reflexivity.
Qed.

Lemma clear_queues_empty s : inflight (clear_queues s) = [] /\ waiters (clear_queues s) = [].
Proof.
  unfold clear_queues. cbn [inflight set_inflight]. split; [reflexivity|].
  cbn [waiters set_inflight]. rewrite fold_drop_waiters. cbn [waiters set_swait].
  unfold drop_tx_opt. destruct (swait _); reflexivity.
Qed.

(* the teardown turn: close, a poll of any task in the closing state, the io stops, the dispatcher clears the queues:
   nothing is left registered or parked *)
Lemma close_then_poll_empty s t :
  inflight (close_then_poll s t) = [] /\ waiters (close_then_poll s t) = [].
Proof. unfold close_then_poll. apply clear_queues_empty. Qed.

(* the engines' runner is the operation semantics of the theorems: without a spawned task, every operation line other
   than 18 / 19 is executed as [sink_op] of its parsed operation *)
Lemma engine_op_plain s f : hd 0 f <> 18 -> hd 0 f <> 19 -> engine_op None s f = sink_op s (parse_op f).
Proof.
  intros H18 H19. destruct f as [|x [|t rest]]; try reflexivity. cbn [hd] in H18, H19.
  unfold engine_op. apply N.eqb_neq in H18, H19. rewrite H18, H19.
  cbn [is_auto]. rewrite andb_false_r. reflexivity.
Qed.

Lemma engine_op_close_then_poll s t rest : engine_op None s (18 :: t :: rest) = close_then_poll s t.
Proof. reflexivity. Qed.

(* ... and nobody is parked: the window check of a stopped connection fails the send at once, whatever the window and
   the back-pressure flag say *)
Lemma window_stopped s x : stopped s = true -> window_then_proceed s x = (s, TDone ST_DISCONNECTED).
Proof. intros H. unfold window_then_proceed. rewrite H. reflexivity. Qed.
