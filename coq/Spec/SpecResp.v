(* Spec/SpecResp.v -- what property C04 means, without reference to the queue:
   responses are written in the order their requests arrived; a response is written as soon as
   its own handler and the handlers of all earlier requests have completed; none is lost or
   duplicated.  A history is a list of events over request ids. *)
From MV Require Import Base.Prelude.

Inductive answer := ASome (b : N) | ANone.

Inductive ev :=
| EArrive (id : N) (now : option answer)     (* request arrives; [now] = answer if the handler is ready at once *)
| EDone (id : N) (a : answer).               (* the deferred handler of request id completes *)

Fixpoint done_in (id : N) (h : list ev) : option answer :=
  match h with
  | [] => None
  | EArrive i (Some a) :: r => if i =? id then Some a else done_in id r
  | EArrive _ None :: r => done_in id r
  | EDone i a :: r => if i =? id then Some a else done_in id r
  end.

Fixpoint arrivals (h : list ev) : list N :=
  match h with
  | [] => []
  | EArrive i _ :: r => i :: arrivals r
  | EDone _ _ :: r => arrivals r
  end.

(* responses of the maximal prefix of arrivals all of whose handlers have completed *)
Fixpoint written_prefix (ids : list N) (h : list ev) : list N :=
  match ids with
  | [] => []
  | i :: r =>
    match done_in i h with
    | None => []
    | Some (ASome b) => b :: written_prefix r h
    | Some ANone => written_prefix r h
    end
  end.

Definition spec_written (h : list ev) : list N := written_prefix (arrivals h) h.

(* well-formed histories: request ids are distinct; a completion names a deferred request that has
   arrived and has not completed yet *)
Fixpoint mem (x : N) (l : list N) : bool :=
  match l with [] => false | y :: r => (x =? y) || mem x r end.

Fixpoint wf_go (arrived pending : list N) (h : list ev) : bool :=
  match h with
  | [] => true
  | EArrive i now :: r =>
    negb (mem i arrived) &&
    wf_go (i :: arrived) (match now with None => i :: pending | Some _ => pending end) r
  | EDone i _ :: r =>
    mem i pending && wf_go arrived (filter (fun j => negb (j =? i)) pending) r
  end.
Definition wf_history (h : list ev) : bool := wf_go [] [] h.

Fixpoint all_done (ids : list N) (h : list ev) : bool :=
  match ids with [] => true | i :: r => match done_in i h with Some _ => all_done r h | None => false end end.
