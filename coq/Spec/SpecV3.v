(* Spec/SpecV3.v -- MQTT Version 3.1.1 (OASIS Standard, 29 October 2014) control packet format,
   written from the specification text, independently of Model/CodecV3.v.

   [spec_decode3 s] parses exactly ONE control packet from the front of [s] and returns the rest:
     2.2   fixed header: byte 1 = packet type (bits 7-4) + flags (bits 3-0, Table 2.2), then the
           Remaining Length as a variable length integer of at most four bytes (2.2.3);
     2.3.1 packet identifiers are non-zero;  1.5.3 strings are 2-byte-length prefixed well-formed UTF-8;
     3.x   variable header and payload of each of the 14 packet types.
   It enforces what the byte layout itself demands (reserved flag bits, protocol name and level,
   Will flag consistency, QoS <> 3, return code bytes of SUBACK, Remaining Length covering exactly the
   fields).  Rules on field *values* that do not influence parsing are collected in
   [spec_conformant].  Definitions only. *)
From MV Require Import Base.Prelude Base.Utf8.

(* ------------------------------------------------------------------ packets as the specification sees them *)
Record spec_will := mkSpecWill {
  sw_qos : N;                 (* 0..2, Connect Flags bits 4-3 *)
  sw_retain : bool;           (* Connect Flags bit 5 *)
  sw_topic : bytes;           (* UTF-8 *)
  sw_message : bytes          (* binary, 2-byte length prefix *)
}.

Record spec_connect := mkSpecConnect {
  sc_clean_session : bool;    (* Connect Flags bit 1 *)
  sc_keep_alive : N;          (* 16 bit, seconds *)
  sc_client_id : bytes;
  sc_will : option spec_will;          (* present iff Will Flag (bit 2) *)
  sc_username : option bytes;          (* present iff bit 7 *)
  sc_password : option bytes           (* present iff bit 6 *)
}.

Record spec_publish := mkSpecPublish {
  sp_dup : bool;              (* fixed header bit 3 *)
  sp_qos : N;                 (* fixed header bits 2-1 *)
  sp_retain : bool;           (* fixed header bit 0 *)
  sp_topic : bytes;
  sp_packet_id : option N;    (* present iff QoS > 0 *)
  sp_payload : bytes          (* the rest of the packet *)
}.

Inductive spec_packet :=
| SConnect (c : spec_connect)                              (* type 1 *)
| SConnack (session_present : bool) (return_code : N)      (* type 2 *)
| SPublish (p : spec_publish)                              (* type 3 *)
| SPuback (packet_id : N)                                  (* type 4 *)
| SPubrec (packet_id : N)                                  (* type 5 *)
| SPubrel (packet_id : N)                                  (* type 6, flags 0010 *)
| SPubcomp (packet_id : N)                                 (* type 7 *)
| SSubscribe (packet_id : N) (filters : list (bytes * N))  (* type 8, flags 0010 *)
| SSuback (packet_id : N) (return_codes : list N)          (* type 9 *)
| SUnsubscribe (packet_id : N) (filters : list bytes)      (* type 10, flags 0010 *)
| SUnsuback (packet_id : N)                                (* type 11 *)
| SPingreq                                                 (* type 12 *)
| SPingresp                                                (* type 13 *)
| SDisconnect.                                             (* type 14 *)

(* ------------------------------------------------------------------ option monad *)
Definition obind {A B} (o : option A) (f : A -> option B) : option B :=
  match o with Some a => f a | None => None end.
Notation "'let?' x ':=' o 'in' k" := (obind o (fun x => k))
  (at level 200, x pattern, o at level 100, k at level 200).

(* ------------------------------------------------------------------ 2.2.3 Remaining Length *)
(* value = sum of (byte AND 127) * 128^i; bit 7 = continuation; at most four bytes *)
Fixpoint spec_remlen_go (more : nat) (mult : N) (s : bytes) : option (N * bytes) :=
  match s with
  | [] => None
  | b :: r =>
    if N.testbit b 7 then
      match more with
      | O => None                                    (* a fifth byte would be needed *)
      | S k => let? (v, r') := spec_remlen_go k (mult * 128) r in Some (N.land b 127 * mult + v, r')
      end
    else Some (N.land b 127 * mult, r)
  end.
Definition spec_remlen (s : bytes) : option (N * bytes) := spec_remlen_go 3 1 s.

(* ------------------------------------------------------------------ 1.5 data representations *)
(* 1.5.2 two byte integer, big endian *)
Definition take_u16 (s : bytes) : option (N * bytes) :=
  match s with msb :: lsb :: r => Some (256 * msb + lsb, r) | _ => None end.

Definition take_n (n : N) (s : bytes) : option (bytes * bytes) :=
  if len s <? n then None else Some (firstn (N.to_nat n) s, skipn (N.to_nat n) s).

(* length-prefixed binary data (will message, password) *)
Definition take_bin (s : bytes) : option (bytes * bytes) :=
  let? (n, r) := take_u16 s in take_n n r.

(* 1.5.3 UTF-8 encoded string: ill-formed UTF-8 is a protocol violation [MQTT-1.5.3-1] *)
Definition take_str (s : bytes) : option (bytes * bytes) :=
  let? (x, r) := take_bin s in if utf8_valid x then Some (x, r) else None.

(* 2.3.1 packet identifier: non-zero [MQTT-2.3.1-1] *)
Definition take_pid (s : bytes) : option (N * bytes) :=
  let? (i, r) := take_u16 s in if i =? 0 then None else Some (i, r).

Definition at_end {A} (s : bytes) (a : A) : option A := match s with [] => Some a | _ => None end.

(* ------------------------------------------------------------------ 3.1 CONNECT *)
Definition spec_connect_body (s : bytes) : option spec_packet :=
  let? (name, s) := take_str s in                                   (* 3.1.2.1 protocol name *)
  if negb (bytes_eqb name [77; 81; 84; 84]) then None else          (* "MQTT" *)
  match s with
  | level :: cf :: s =>
    if negb (level =? 4) then None else                             (* 3.1.2.2 protocol level 4 *)
    if N.testbit cf 0 then None else                                (* 3.1.2.3 reserved bit must be 0 *)
    let clean := N.testbit cf 1 in
    let willf := N.testbit cf 2 in
    let wqos := (if N.testbit cf 3 then 1 else 0) + (if N.testbit cf 4 then 2 else 0) in
    let wret := N.testbit cf 5 in
    let pwf := N.testbit cf 6 in
    let unf := N.testbit cf 7 in
    if wqos =? 3 then None else                                     (* [MQTT-3.1.2-14] *)
    if negb willf && (negb (wqos =? 0) || wret) then None else      (* [MQTT-3.1.2-13], [MQTT-3.1.2-15] *)
    let? (ka, s) := take_u16 s in                                   (* 3.1.2.10 keep alive *)
    let? (cid, s) := take_str s in                                  (* 3.1.3.1 client identifier *)
    let? (will, s) :=
      (if willf then
         let? (wt, s) := take_str s in                              (* 3.1.3.2 will topic *)
         let? (wm, s) := take_bin s in                              (* 3.1.3.3 will message *)
         Some (Some (mkSpecWill wqos wret wt wm), s)
       else Some (None, s)) in
    let? (un, s) := (if unf then let? (u, s) := take_str s in Some (Some u, s) else Some (None, s)) in
    let? (pw, s) := (if pwf then let? (p, s) := take_bin s in Some (Some p, s) else Some (None, s)) in
    at_end s (SConnect (mkSpecConnect clean ka cid will un pw))
  | _ => None
  end.

(* ------------------------------------------------------------------ 3.2 CONNACK *)
Definition spec_connack_body (s : bytes) : option spec_packet :=
  match s with
  | [ack_flags; rc] =>
    if 1 <? ack_flags then None                                     (* bits 7-1 reserved, must be 0 *)
    else Some (SConnack (N.testbit ack_flags 0) rc)
  | _ => None
  end.

(* ------------------------------------------------------------------ 3.3 PUBLISH *)
Definition spec_publish_body (flags : N) (s : bytes) : option spec_packet :=
  let dup := N.testbit flags 3 in
  let qos := (if N.testbit flags 1 then 1 else 0) + (if N.testbit flags 2 then 2 else 0) in
  let retain := N.testbit flags 0 in
  if qos =? 3 then None else                                        (* [MQTT-3.3.1-4] *)
  let? (topic, s) := take_str s in                                  (* 3.3.2.1 *)
  let? (pid, s) :=
    (if qos =? 0 then Some (None, s) else let? (i, s) := take_pid s in Some (Some i, s)) in   (* 3.3.2.2 *)
  Some (SPublish (mkSpecPublish dup qos retain topic pid s)).       (* 3.3.3 payload = the rest *)

(* ------------------------------------------------------------------ 3.4-3.7, 3.11: packet id only *)
Definition spec_ack_body (k : N -> spec_packet) (s : bytes) : option spec_packet :=
  let? (i, s) := take_pid s in at_end s (k i).

(* ------------------------------------------------------------------ 3.8 SUBSCRIBE *)
Fixpoint spec_sub_list (fuel : nat) (s : bytes) : option (list (bytes * N)) :=
  match s with
  | [] => Some []
  | _ =>
    match fuel with
    | O => None
    | S k =>
      let? (f, s) := take_str s in
      match s with
      | rq :: s =>
        if 2 <? rq then None                                        (* reserved bits 7-2, QoS 3: [MQTT-3-8.3-4] *)
        else let? rest := spec_sub_list k s in Some ((f, rq) :: rest)
      | [] => None
      end
    end
  end.

Definition spec_subscribe_body (s : bytes) : option spec_packet :=
  let? (i, s) := take_pid s in
  let? fs := spec_sub_list (length s) s in Some (SSubscribe i fs).

(* ------------------------------------------------------------------ 3.9 SUBACK *)
Definition suback_code_ok (c : N) : bool := (c <=? 2) || (c =? 128).     (* [MQTT-3.9.3-2] *)
Definition spec_suback_body (s : bytes) : option spec_packet :=
  let? (i, s) := take_pid s in
  if forallb suback_code_ok s then Some (SSuback i s) else None.

(* ------------------------------------------------------------------ 3.10 UNSUBSCRIBE *)
Fixpoint spec_unsub_list (fuel : nat) (s : bytes) : option (list bytes) :=
  match s with
  | [] => Some []
  | _ =>
    match fuel with
    | O => None
    | S k => let? (f, s) := take_str s in let? rest := spec_unsub_list k s in Some (f :: rest)
    end
  end.

Definition spec_unsubscribe_body (s : bytes) : option spec_packet :=
  let? (i, s) := take_pid s in
  let? fs := spec_unsub_list (length s) s in Some (SUnsubscribe i fs).

(* ------------------------------------------------------------------ Table 2.1 / 2.2 dispatch *)
Definition spec_body (ptype flags : N) (body : bytes) : option spec_packet :=
  match ptype with
  | 1 => if flags =? 0 then spec_connect_body body else None
  | 2 => if flags =? 0 then spec_connack_body body else None
  | 3 => spec_publish_body flags body
  | 4 => if flags =? 0 then spec_ack_body SPuback body else None
  | 5 => if flags =? 0 then spec_ack_body SPubrec body else None
  | 6 => if flags =? 2 then spec_ack_body SPubrel body else None        (* [MQTT-3.6.1-1] *)
  | 7 => if flags =? 0 then spec_ack_body SPubcomp body else None
  | 8 => if flags =? 2 then spec_subscribe_body body else None          (* [MQTT-3.8.1-1] *)
  | 9 => if flags =? 0 then spec_suback_body body else None
  | 10 => if flags =? 2 then spec_unsubscribe_body body else None       (* [MQTT-3.10.1-1] *)
  | 11 => if flags =? 0 then spec_ack_body SUnsuback body else None
  | 12 => if flags =? 0 then at_end body SPingreq else None
  | 13 => if flags =? 0 then at_end body SPingresp else None
  | 14 => if flags =? 0 then at_end body SDisconnect else None
  | _ => None                                                           (* 0 and 15 are reserved *)
  end.

Definition spec_decode3 (s : bytes) : option (spec_packet * bytes) :=
  match s with
  | [] => None
  | b0 :: s1 =>
    if 255 <? b0 then None else
    let ptype := N.shiftr b0 4 in
    let flags := N.land b0 15 in
    let? (rl, s2) := spec_remlen s1 in
    let? (body, rest) := take_n rl s2 in
    let? p := spec_body ptype flags body in
    Some (p, rest)
  end.

(* a whole stream: packets back to back *)
Fixpoint spec_decode3_all (fuel : nat) (s : bytes) : option (list spec_packet) :=
  match s with
  | [] => Some []
  | _ =>
    match fuel with
    | O => None
    | S k => let? (p, r) := spec_decode3 s in let? ps := spec_decode3_all k r in Some (p :: ps)
    end
  end.

(* ------------------------------------------------------------------ rules on values *)
Definition no_nul (s : bytes) : bool := forallb (fun b => negb (b =? 0)) s.       (* [MQTT-1.5.3-2] *)
Definition no_wildcard (s : bytes) : bool := forallb (fun b => negb ((b =? 35) || (b =? 43))) s.
Definition nonempty {A} (l : list A) : bool := match l with [] => false | _ => true end.
Definition oall {A} (f : A -> bool) (o : option A) : bool := match o with Some a => f a | None => true end.

Definition spec_conformant (p : spec_packet) : bool :=
  match p with
  | SConnect c =>
    no_nul (sc_client_id c)
    && (nonempty (sc_client_id c) || sc_clean_session c)                           (* [MQTT-3.1.3-7] *)
    && oall (fun w => no_nul (sw_topic w) && nonempty (sw_topic w)) (sc_will c)
    && oall no_nul (sc_username c)
    && (match sc_username c, sc_password c with None, Some _ => false | _, _ => true end)  (* [MQTT-3.1.2-22] *)
  | SConnack sp rc => (rc <=? 5) && (negb sp || (rc =? 0))                          (* Table 3.1, [MQTT-3.2.2-4] *)
  | SPublish p =>
    no_nul (sp_topic p) && nonempty (sp_topic p) && no_wildcard (sp_topic p)       (* [MQTT-3.3.2-2], [MQTT-4.7.3-1] *)
    && (negb (sp_qos p =? 0) || negb (sp_dup p))                                   (* [MQTT-3.3.1-2] *)
  | SSubscribe _ fs =>
    nonempty fs && forallb (fun f => no_nul (fst f) && nonempty (fst f)) fs        (* [MQTT-3.8.3-3] *)
  | SUnsubscribe _ fs =>
    nonempty fs && forallb (fun f => no_nul f && nonempty f) fs                    (* [MQTT-3.10.3-2] *)
  | _ => true
  end.

(* ------------------------------------------------------------------ the crate's values, read as spec packets *)
From MV Require Import Base.Res Model.CodecV3.

Definition qos_number (q : qos) : N := match q with AtMostOnce => 0 | AtLeastOnce => 1 | ExactlyOnce => 2 end.

Definition connack_code (r : connack_reason) : N :=
  match r with
  | ConnectionAccepted => 0
  | UnacceptableProtocolVersion => 1
  | IdentifierRejected => 2
  | ServiceUnavailable => 3
  | BadUserNameOrPassword => 4
  | NotAuthorized => 5
  | Reserved => 6
  end.

Definition suback_code (s : sub_rc) : N := match s with SrcSuccess q => qos_number q | SrcFailure => 128 end.

Definition to_spec_will (w : last_will) : spec_will :=
  mkSpecWill (qos_number (lw_qos w)) (lw_retain w) (lw_topic w) (lw_message w).

Definition to_spec_connect (c : connect) : spec_connect :=
  mkSpecConnect (c_clean_session c) (c_keep_alive c) (c_client_id c) (option_map to_spec_will (c_last_will c))
                (c_username c) (c_password c).

Definition to_spec (p : packet) : spec_packet :=
  match p with
  | PConnect c => SConnect (to_spec_connect c)
  | PConnectAck a => SConnack (ca_session_present a) (connack_code (ca_return_code a))
  | PPublishAck i => SPuback i
  | PPublishReceived i => SPubrec i
  | PPublishRelease i => SPubrel i
  | PPublishComplete i => SPubcomp i
  | PSubscribe i fs => SSubscribe i (map (fun f => (fst f, qos_number (snd f))) fs)
  | PSubscribeAck i st => SSuback i (map suback_code st)
  | PUnsubscribe i fs => SUnsubscribe i fs
  | PUnsubscribeAck i => SUnsuback i
  | PPingRequest => SPingreq
  | PPingResponse => SPingresp
  | PDisconnect => SDisconnect
  end.

Definition to_spec_publish (p : publish) (payload : bytes) : spec_packet :=
  SPublish (mkSpecPublish (p_dup p) (qos_number (p_qos p)) (p_retain p) (p_topic p) (p_packet_id p) payload).
