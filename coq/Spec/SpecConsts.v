(* Spec/SpecConsts.v -- the numeric tables of the OASIS MQTT 3.1.1 and MQTT 5.0 specifications,
   written down from the documents (3.1.1: table 2.1/2.2 control packet types and flags, 3.1.2 CONNECT
   flags, 3.2.2.3 CONNACK return codes; 5.0: 2.1.2, 2.2.2.2 property identifiers, 2.4 reason codes per
   packet, 3.1.2.3 connect flags) and checked against them by hand on 2026-09-25. STATIC: this file is
   never regenerated; the keys are the crate's identifier names so that Gen/Consts.v (regenerated from
   the Rust source on every run) can be compared entry by entry.  [spec_violation_reason] and
   [proto_error_reason] record which DISCONNECT reason code MQTT 5 assigns to each cause. *)
From Coq Require Import List NArith String.
Import ListNotations.
Local Open Scope N_scope.
Local Open Scope string_scope.

Definition spec_packet_types : list (string * N) := [
  ("AUTH", 240);
  ("CONNACK", 32);
  ("CONNECT", 16);
  ("DISCONNECT", 224);
  ("PINGREQ", 192);
  ("PINGRESP", 208);
  ("PUBACK", 64);
  ("PUBCOMP", 112);
  ("PUBLISH_END", 63);
  ("PUBLISH_START", 48);
  ("PUBREC", 80);
  ("PUBREL", 98);
  ("SUBACK", 144);
  ("SUBSCRIBE", 130);
  ("UNSUBACK", 176);
  ("UNSUBSCRIBE", 162)
].
Definition spec_property_types : list (string * N) := [
  ("ASSND_CLIENT_ID", 18);
  ("AUTH_DATA", 22);
  ("AUTH_METHOD", 21);
  ("CONTENT_TYPE", 3);
  ("CORR_DATA", 9);
  ("MAX_PACKET_SIZE", 39);
  ("MAX_QOS", 36);
  ("MSG_EXPIRY_INT", 2);
  ("REASON_STRING", 31);
  ("RECEIVE_MAX", 33);
  ("REQ_PROB_INFO", 23);
  ("REQ_RESP_INFO", 25);
  ("RESP_INFO", 26);
  ("RESP_TOPIC", 8);
  ("RETAIN_AVAIL", 37);
  ("SERVER_KA", 19);
  ("SERVER_REF", 28);
  ("SESS_EXPIRY_INT", 17);
  ("SHARED_SUB_AVAIL", 42);
  ("SUB_ID", 11);
  ("SUB_IDS_AVAIL", 41);
  ("TOPIC_ALIAS", 35);
  ("TOPIC_ALIAS_MAX", 34);
  ("USER", 38);
  ("UTF8_PAYLOAD", 1);
  ("WILDCARD_SUB_AVAIL", 40);
  ("WILL_DELAY_INT", 24)
].
Definition spec_enum_QoS : list (string * N) := [
  ("AtLeastOnce", 1);
  ("AtMostOnce", 0);
  ("ExactlyOnce", 2)
].
Definition spec_enum_v3_ConnectAckReason : list (string * N) := [
  ("BadUserNameOrPassword", 4);
  ("ConnectionAccepted", 0);
  ("IdentifierRejected", 2);
  ("NotAuthorized", 5);
  ("Reserved", 6);
  ("ServiceUnavailable", 3);
  ("UnacceptableProtocolVersion", 1)
].
Definition spec_enum_v5_AuthReasonCode : list (string * N) := [
  ("ContinueAuth", 24);
  ("ReAuth", 25);
  ("Success", 0)
].
Definition spec_enum_v5_ConnectAckReason : list (string * N) := [
  ("BadAuthenticationMethod", 140);
  ("BadUserNameOrPassword", 134);
  ("Banned", 138);
  ("ClientIdentifierNotValid", 133);
  ("ConnectionRateExceeded", 159);
  ("ImplementationSpecificError", 131);
  ("MalformedPacket", 129);
  ("NotAuthorized", 135);
  ("PacketTooLarge", 149);
  ("PayloadFormatInvalid", 153);
  ("ProtocolError", 130);
  ("QosNotSupported", 155);
  ("QuotaExceeded", 151);
  ("RetainNotSupported", 154);
  ("ServerBusy", 137);
  ("ServerMoved", 157);
  ("ServerUnavailable", 136);
  ("Success", 0);
  ("TopicNameInvalid", 144);
  ("UnspecifiedError", 128);
  ("UnsupportedProtocolVersion", 132);
  ("UseAnotherServer", 156)
].
Definition spec_enum_v5_DisconnectReasonCode : list (string * N) := [
  ("AdministrativeAction", 152);
  ("BadAuthenticationMethod", 140);
  ("ConnectionRateExceeded", 159);
  ("DisconnectWithWillMessage", 4);
  ("ImplementationSpecificError", 131);
  ("KeepAliveTimeout", 141);
  ("MalformedPacket", 129);
  ("MaximumConnectTime", 160);
  ("MessageRateTooHigh", 150);
  ("NormalDisconnection", 0);
  ("NotAuthorized", 135);
  ("PacketTooLarge", 149);
  ("PayloadFormatInvalid", 153);
  ("ProtocolError", 130);
  ("QosNotSupported", 155);
  ("QuotaExceeded", 151);
  ("ReceiveMaximumExceeded", 147);
  ("RetainNotSupported", 154);
  ("ServerBusy", 137);
  ("ServerMoved", 157);
  ("ServerShuttingDown", 139);
  ("SessionTakenOver", 142);
  ("SharedSubscriptionNotSupported", 158);
  ("SubscriptionIdentifiersNotSupported", 161);
  ("TopicAliasInvalid", 148);
  ("TopicFilterInvalid", 143);
  ("TopicNameInvalid", 144);
  ("UnspecifiedError", 128);
  ("UseAnotherServer", 156);
  ("WildcardSubscriptionsNotSupported", 162)
].
Definition spec_enum_v5_PublishAck2Reason : list (string * N) := [
  ("PacketIdNotFound", 146);
  ("Success", 0)
].
Definition spec_enum_v5_PublishAckReason : list (string * N) := [
  ("ImplementationSpecificError", 131);
  ("NoMatchingSubscribers", 16);
  ("NotAuthorized", 135);
  ("PacketIdentifierInUse", 145);
  ("PayloadFormatInvalid", 153);
  ("QuotaExceeded", 151);
  ("Success", 0);
  ("TopicNameInvalid", 144);
  ("UnspecifiedError", 128)
].
Definition spec_enum_v5_RetainHandling : list (string * N) := [
  ("AtSubscribe", 0);
  ("AtSubscribeNew", 1);
  ("NoAtSubscribe", 2)
].
Definition spec_enum_v5_SubscribeAckReason : list (string * N) := [
  ("GrantedQos0", 0);
  ("GrantedQos1", 1);
  ("GrantedQos2", 2);
  ("ImplementationSpecificError", 131);
  ("NotAuthorized", 135);
  ("PacketIdentifierInUse", 145);
  ("QuotaExceeded", 151);
  ("SharedSubscriptionNotSupported", 158);
  ("SubscriptionIdentifiersNotSupported", 161);
  ("TopicFilterInvalid", 143);
  ("UnspecifiedError", 128);
  ("WildcardSubscriptionsNotSupported", 162)
].
Definition spec_enum_v5_UnsubscribeAckReason : list (string * N) := [
  ("ImplementationSpecificError", 131);
  ("NoSubscriptionExisted", 17);
  ("NotAuthorized", 135);
  ("PacketIdentifierInUse", 145);
  ("Success", 0);
  ("TopicFilterInvalid", 143);
  ("UnspecifiedError", 128)
].
Definition spec_flags_ConnectFlags : list (string * N) := [
  ("CLEAN_START", 2);
  ("PASSWORD", 64);
  ("USERNAME", 128);
  ("WILL", 4);
  ("WILL_QOS", 24);
  ("WILL_RETAIN", 32)
].
Definition spec_flags_ConnectAckFlags : list (string * N) := [
  ("SESSION_PRESENT", 1)
].
Definition spec_protocol_name : list N := [77; 81; 84; 84].
Definition spec_MAX_PACKET_SIZE : N := 268435455.
Definition spec_MQTT_LEVEL_3 : N := 4.
Definition spec_MQTT_LEVEL_5 : N := 5.
Definition spec_OUT_SIZE_REDUCTION : N := 5.
Definition spec_OUT_SIZE_THRESHOLD : N := 5.
Definition spec_PUBACK_HEADER_LEN : N := 3.
Definition spec_RECEIVE_MAX_DEFAULT : N := 65535.
Definition spec_WILL_QOS_SHIFT : N := 3.
Definition spec_spec_violation_reason : list (string * string) := [
  ("Connack_3_2_2_11", "QosNotSupported");
  ("Connack_3_2_2_14", "RetainNotSupported");
  ("Connack_3_2_2_17", "ProtocolError");
  ("Connack_3_2_2_3_12", "SubscriptionIdentifiersNotSupported");
  ("Connect_3_1_2_26", "ProtocolError");
  ("Disconnect_3_14_2_21", "ProtocolError");
  ("Disconnect_3_14_2_22", "ProtocolError");
  ("PacketId_2_2_1_3_Pub", "ProtocolError");
  ("PacketId_2_2_1_3_Sub", "ProtocolError");
  ("PacketId_2_2_1_3_Unsub", "ProtocolError");
  ("Pub_3_3_2_2", "ProtocolError");
  ("Pub_3_3_4_7", "ReceiveMaximumExceeded");
  ("Pub_3_3_4_9", "ReceiveMaximumExceeded");
  ("Subs_4_7_1", "ProtocolError")
].
Definition spec_proto_error_reason : list (string * string) := [
  ("Decode(InvalidLength)", "MalformedPacket");
  ("Decode(MaxSizeExceeded)", "PacketTooLarge");
  ("KeepAliveTimeout", "KeepAliveTimeout");
  ("ProtocolViolation(e)", "e.reason()");
  ("_", "ImplementationSpecificError")
].
