(* Spec/SpecTopic.v -- MQTT section 4.7 written from the OASIS text, not from the Rust.

   4.7.1.1  '/' separates levels; adjacent separators give zero-length levels.
   4.7.1.2  '#' matches any number of levels *including the parent*; it must be the
            last character and either alone or directly after a separator.
   4.7.1.3  '+' matches exactly one level; where used it must occupy an entire level.
   4.7.2    a filter starting with a wildcard does not match a topic name beginning with '$'.
   4.7.3    topic names and filters are at least one character long; topic names contain
            no wildcard characters. *)
From MV Require Import Base.Prelude.

Definition sSLASH : N := 47.
Definition sPLUS : N := 43.
Definition sHASH : N := 35.
Definition sDOLLAR : N := 36.

(* levels of a string: a non-recursive-accumulator formulation, independent of the model's *)
Fixpoint levels (s : bytes) : list bytes :=
  match s with
  | [] => [[]]
  | c :: r =>
    if c =? sSLASH then [] :: levels r
    else match levels r with
         | l :: ls => (c :: l) :: ls
         | [] => [[c]]         (* impossible: levels never returns [] *)
         end
  end.

Definition is_wild_char (c : N) : bool := (c =? sPLUS) || (c =? sHASH).
Definition no_wild (l : bytes) : bool := negb (existsb is_wild_char l).

Definition is_plus (l : bytes) : bool := bytes_eqb l [sPLUS].
Definition is_hash (l : bytes) : bool := bytes_eqb l [sHASH].

(* a level of a filter is fine if it is exactly "+", or contains no wildcard characters;
   "#" is fine only as the last level *)
Fixpoint filter_levels_ok (ls : list bytes) : bool :=
  match ls with
  | [] => true
  | [l] => is_plus l || is_hash l || no_wild l
  | l :: r => (is_plus l || no_wild l) && filter_levels_ok r
  end.

Definition spec_valid_filter (s : bytes) : bool :=
  match s with [] => false | _ => filter_levels_ok (levels s) end.

Definition spec_topic_name (t : bytes) : bool :=
  match t with [] => false | _ => no_wild t end.

(* level-wise matching *)
Fixpoint lmatch (f t : list bytes) : bool :=
  match f with
  | [] => match t with [] => true | _ => false end
  | fl :: f' =>
    if is_hash fl then true                      (* any number of remaining levels, including none *)
    else match t with
         | [] => false
         | tl :: t' => (is_plus fl || bytes_eqb fl tl) && lmatch f' t'
         end
  end.

Definition starts_dollar (t : bytes) : bool :=
  match t with c :: _ => c =? sDOLLAR | [] => false end.

Definition starts_wild (f : bytes) : bool :=
  match f with c :: _ => is_wild_char c | [] => false end.

(* spec_matchb f t : the section 4.7 answer for a valid filter f and a topic name t *)
Definition spec_matchb (f t : bytes) : bool :=
  if starts_wild f && starts_dollar t then false
  else lmatch (levels f) (levels t).
