(* Spec/SpecV5.v -- an INDEPENDENT reading of the OASIS MQTT Version 5.0 wire format (sections 1.5, 2, 3),
   written from the text of the standard and not from the crate: a table-driven decoder
     spec_decode5 : bytes -> option (spec_packet * bytes)
   of ONE control packet in front of a byte string (the rest is returned), and the abstraction
     to_spec : CodecV5.packet -> spec_packet     /   to_spec_publish
   from the packets of the model.  Definitions only; the layout lemmas are in Proofs/CodecV5Layout.v.

   Where the standard is stricter than the crate's decoder the spec follows the standard:
   [MQTT-1.5.4-2] no U+0000 in UTF-8 strings, [MQTT-1.5.5-1] minimal variable byte integers,
   reserved fixed-header flags, Maximum QoS in {0,1}, Maximum Packet Size <> 0 in CONNACK too,
   at least one topic filter in SUBSCRIBE / UNSUBSCRIBE, reserved bits of the subscription options,
   Will QoS / Will Retain zero when there is no Will, no bytes after the last field of a packet.
   (Message Expiry Interval = 0 is legal in the standard; the crate refuses it.) *)
From MV Require Import Base.Prelude Base.Utf8 Model.CodecV5.

(* ------------------------------------------------------------------ 1.5 data representation *)
Definition s_u16 (s : bytes) : option (N * bytes) :=
  match s with a :: b :: r => Some (a * 256 + b, r) | _ => None end.

Definition s_u32 (s : bytes) : option (N * bytes) :=
  match s with a :: b :: c :: d :: r => Some (((a * 256 + b) * 256 + c) * 256 + d, r) | _ => None end.

(* 1.5.5 variable byte integer: at most four bytes, 7 bits each, least significant group first;
   [MQTT-1.5.5-1] minimum number of bytes: the last byte of a multi-byte encoding is not 0 *)
Fixpoint s_varint_go (n : nat) (first : bool) (mult acc : N) (s : bytes) : option (N * bytes) :=
  match n, s with
  | S k, b :: r =>
    let acc' := acc + (b mod 128) * mult in
    if b <? 128 then (if first || negb (b =? 0) then Some (acc', r) else None)
    else s_varint_go k false (mult * 128) acc' r
  | _, _ => None
  end.
Definition s_varint (s : bytes) : option (N * bytes) := s_varint_go 4 true 1 0 s.

(* 1.5.6 binary data *)
Definition s_bin (s : bytes) : option (bytes * bytes) :=
  match s_u16 s with
  | Some (n, r) => if n <=? len r then Some (firstn (N.to_nat n) r, skipn (N.to_nat n) r) else None
  | None => None
  end.

(* 1.5.4 UTF-8 encoded string: well-formed UTF-8 (no surrogates), no U+0000 *)
Definition s_text_ok (b : bytes) : bool := utf8_valid b && negb (existsb (N.eqb 0) b).
Definition s_str (s : bytes) : option (bytes * bytes) :=
  match s_bin s with
  | Some (b, r) => if s_text_ok b then Some (b, r) else None
  | None => None
  end.

Definition elem (n : N) (l : list N) : bool := existsb (N.eqb n) l.

(* ------------------------------------------------------------------ 2.1.2 control packet types *)
Definition T_WILL : N := 0.        (* pseudo type: the Will Properties of CONNECT *)
Definition T_CONNECT : N := 1.
Definition T_CONNACK : N := 2.
Definition T_PUBLISH : N := 3.
Definition T_PUBACK : N := 4.
Definition T_PUBREC : N := 5.
Definition T_PUBREL : N := 6.
Definition T_PUBCOMP : N := 7.
Definition T_SUBSCRIBE : N := 8.
Definition T_SUBACK : N := 9.
Definition T_UNSUBSCRIBE : N := 10.
Definition T_UNSUBACK : N := 11.
Definition T_PINGREQ : N := 12.
Definition T_PINGRESP : N := 13.
Definition T_DISCONNECT : N := 14.
Definition T_AUTH : N := 15.

(* ------------------------------------------------------------------ 2.2.2.2 properties (table 2-4) *)
Inductive wire := WByte | WTwo | WFour | WVar | WStr | WBin | WPair.

Inductive sval := SN (n : N) | SB (b : bytes) | SP (k v : bytes).
Definition sprops := list (N * sval).

(* identifier, wire type, packets (and Will) that may carry it *)
Definition prop_table : list (N * (wire * list N)) :=
  [ (1,  (WByte, [3; 0]));                       (* Payload Format Indicator *)
    (2,  (WFour, [3; 0]));                       (* Message Expiry Interval *)
    (3,  (WStr,  [3; 0]));                       (* Content Type *)
    (8,  (WStr,  [3; 0]));                       (* Response Topic *)
    (9,  (WBin,  [3; 0]));                       (* Correlation Data *)
    (11, (WVar,  [3; 8]));                       (* Subscription Identifier *)
    (17, (WFour, [1; 2; 14]));                   (* Session Expiry Interval *)
    (18, (WStr,  [2]));                          (* Assigned Client Identifier *)
    (19, (WTwo,  [2]));                          (* Server Keep Alive *)
    (21, (WStr,  [1; 2; 15]));                   (* Authentication Method *)
    (22, (WBin,  [1; 2; 15]));                   (* Authentication Data *)
    (23, (WByte, [1]));                          (* Request Problem Information *)
    (24, (WFour, [0]));                          (* Will Delay Interval *)
    (25, (WByte, [1]));                          (* Request Response Information *)
    (26, (WStr,  [2]));                          (* Response Information *)
    (28, (WStr,  [2; 14]));                      (* Server Reference *)
    (31, (WStr,  [2; 4; 5; 6; 7; 9; 11; 14; 15]));   (* Reason String *)
    (33, (WTwo,  [1; 2]));                       (* Receive Maximum *)
    (34, (WTwo,  [1; 2]));                       (* Topic Alias Maximum *)
    (35, (WTwo,  [3]));                          (* Topic Alias *)
    (36, (WByte, [2]));                          (* Maximum QoS *)
    (37, (WByte, [2]));                          (* Retain Available *)
    (38, (WPair, [1; 2; 3; 0; 4; 5; 6; 7; 8; 9; 10; 11; 14; 15]));   (* User Property *)
    (39, (WFour, [1; 2]));                       (* Maximum Packet Size *)
    (40, (WByte, [2]));                          (* Wildcard Subscription Available *)
    (41, (WByte, [2]));                          (* Subscription Identifier Available *)
    (42, (WByte, [2])) ].                        (* Shared Subscription Available *)

Definition prop_lookup (id : N) : option (wire * list N) :=
  match find (fun e => fst e =? id) prop_table with Some e => Some (snd e) | None => None end.

(* may appear more than once: User Property everywhere, Subscription Identifier in PUBLISH *)
Definition prop_multi (ptype id : N) : bool := (id =? 38) || ((id =? 11) && (ptype =? T_PUBLISH)).

(* value restrictions stated with the individual properties *)
Definition prop_value_ok (id : N) (v : sval) : bool :=
  match v with
  | SN n =>
    if elem id [1; 23; 25; 36; 37; 40; 41; 42] then n <=? 1            (* 0 or 1 *)
    else if elem id [33; 35; 39; 11] then 0 <? n                       (* zero is a Protocol Error *)
    else true
  | _ => true
  end.

Definition s_value (w : wire) (s : bytes) : option (sval * bytes) :=
  match w with
  | WByte => match s with b :: r => Some (SN b, r) | [] => None end
  | WTwo => match s_u16 s with Some (n, r) => Some (SN n, r) | None => None end
  | WFour => match s_u32 s with Some (n, r) => Some (SN n, r) | None => None end
  | WVar => match s_varint s with Some (n, r) => Some (SN n, r) | None => None end
  | WStr => match s_str s with Some (b, r) => Some (SB b, r) | None => None end
  | WBin => match s_bin s with Some (b, r) => Some (SB b, r) | None => None end
  | WPair => match s_str s with
             | Some (k, r) => match s_str r with Some (v, r') => Some (SP k v, r') | None => None end
             | None => None
             end
  end.

(* the properties of one block, exactly the bytes [s]; fuel = an upper bound on the number of properties *)
Fixpoint s_props (fuel : nat) (ptype : N) (seen : list N) (s : bytes) : option sprops :=
  match s with
  | [] => Some []
  | id :: r =>
    match fuel with
    | O => None
    | S f =>
      match prop_lookup id with
      | Some (w, pkts) =>
        if elem ptype pkts && (prop_multi ptype id || negb (elem id seen)) then
          match s_value w r with
          | Some (v, r') =>
            if prop_value_ok id v then
              match s_props f ptype (id :: seen) r' with Some ps => Some ((id, v) :: ps) | None => None end
            else None
          | None => None
          end
        else None
      | None => None
      end
    end
  end.

(* 2.2.2: Property Length (variable byte integer) then the properties *)
Definition s_prop_block (ptype : N) (s : bytes) : option (sprops * bytes) :=
  match s_varint s with
  | Some (n, r) =>
    if n <=? len r then
      match s_props (length r) ptype [] (firstn (N.to_nat n) r) with
      | Some ps => Some (ps, skipn (N.to_nat n) r)
      | None => None
      end
    else None
  | None => None
  end.

(* ------------------------------------------------------------------ reason codes per packet (section 3) *)
Definition rc_connack : list N :=
  [0; 128; 129; 130; 131; 132; 133; 134; 135; 136; 137; 138; 140; 144; 149; 151; 153; 154; 155; 156; 157; 159].
Definition rc_puback : list N := [0; 16; 128; 131; 135; 144; 145; 151; 153].     (* PUBACK, PUBREC *)
Definition rc_pubrel : list N := [0; 146].                                       (* PUBREL, PUBCOMP *)
Definition rc_suback : list N := [0; 1; 2; 128; 131; 135; 143; 145; 151; 158; 161; 162].
Definition rc_unsuback : list N := [0; 17; 128; 131; 135; 143; 145].
Definition rc_disconnect : list N :=
  [0; 4; 128; 129; 130; 131; 135; 137; 139; 140; 141; 142; 143; 144; 147; 148; 149; 150; 151; 152; 153; 154;
   155; 156; 157; 158; 159; 160; 161; 162].
Definition rc_auth : list N := [0; 24; 25].

(* ------------------------------------------------------------------ abstract packets *)
Record swill := mkSWill { sw_qos : N; sw_retain : bool; sw_props : sprops; sw_topic : bytes; sw_payload : bytes }.

Inductive spec_packet :=
| SConnect (clean_start : bool) (keep_alive : N) (props : sprops) (client_id : bytes)
           (will : option swill) (user : option bytes) (pass : option bytes)
| SConnAck (session_present : bool) (rc : N) (props : sprops)
| SPublish (dup : bool) (qos : N) (retain : bool) (topic : bytes) (pid : option N) (props : sprops)
           (payload : bytes)
| SAck (ptype pid rc : N) (props : sprops)              (* PUBACK / PUBREC / PUBREL / PUBCOMP *)
| SSubscribe (pid : N) (props : sprops) (filters : list (bytes * (N * bool * bool * N)))
| SSubAck (pid : N) (props : sprops) (codes : list N)
| SUnsubscribe (pid : N) (props : sprops) (filters : list bytes)
| SUnsubAck (pid : N) (props : sprops) (codes : list N)
| SPingReq
| SPingResp
| SDisconnect (rc : N) (props : sprops)
| SAuth (rc : N) (props : sprops).

(* ------------------------------------------------------------------ section 3, packet by packet.
   Each function gets exactly the Remaining Length bytes of the frame. *)
Definition bitn (v mask : N) : bool := (v / mask) mod 2 =? 1.

Definition all_consumed {A} (x : option (A * bytes)) : option A :=
  match x with Some (a, []) => Some a | _ => None end.

(* 3.1 CONNECT *)
Definition s_connect (s : bytes) : option spec_packet :=
  match s with
  | 0 :: 4 :: 77 :: 81 :: 84 :: 84 :: 5 :: flags :: r0 =>                (* "MQTT", version 5 *)
    if negb (bitn flags 1) then                                          (* reserved [MQTT-3.1.2-3] *)
      let will_flag := bitn flags 4 in
      let will_qos := (flags / 8) mod 4 in
      if (will_qos <? 3) && (will_flag || ((will_qos =? 0) && negb (bitn flags 32))) then
        match s_u16 r0 with
        | Some (keep_alive, r1) =>
          match s_prop_block T_CONNECT r1 with
          | Some (props, r2) =>
            match s_str r2 with
            | Some (client_id, r3) =>
              match (if will_flag then
                       match s_prop_block T_WILL r3 with
                       | Some (wp, r4) =>
                         match s_str r4 with
                         | Some (wt, r5) =>
                           match s_bin r5 with
                           | Some (wm, r6) => Some (Some (mkSWill will_qos (bitn flags 32) wp wt wm), r6)
                           | None => None
                           end
                         | None => None
                         end
                       | None => None
                       end
                     else Some (None, r3)) with
              | Some (will, r6) =>
                match (if bitn flags 128 then
                         match s_str r6 with Some (u, r7) => Some (Some u, r7) | None => None end
                       else Some (None, r6)) with
                | Some (user, r7) =>
                  match (if bitn flags 64 then
                           match s_bin r7 with Some (p, r8) => Some (Some p, r8) | None => None end
                         else Some (None, r7)) with
                  | Some (pass, []) => Some (SConnect (bitn flags 2) keep_alive props client_id will user pass)
                  | _ => None
                  end
                | None => None
                end
              | None => None
              end
            | None => None
            end
          | None => None
          end
        | None => None
        end
      else None
    else None
  | _ => None
  end.

(* 3.2 CONNACK *)
Definition s_connack (s : bytes) : option spec_packet :=
  match s with
  | flags :: rc :: r =>
    if (flags <=? 1) && elem rc rc_connack then
      match all_consumed (s_prop_block T_CONNACK r) with
      | Some props => Some (SConnAck (flags =? 1) rc props)
      | None => None
      end
    else None
  | _ => None
  end.

(* 3.3 PUBLISH: flags = DUP(3) QoS(2-1) RETAIN(0) *)
Definition s_publish (flags : N) (s : bytes) : option spec_packet :=
  let qos := (flags / 2) mod 4 in
  if qos <? 3 then
    match s_str s with
    | Some (topic, r) =>
      match (if qos =? 0 then Some (None, r)
             else match s_u16 r with
                  | Some (pid, r') => if 0 <? pid then Some (Some pid, r') else None
                  | None => None
                  end) with
      | Some (pid, r1) =>
        match s_prop_block T_PUBLISH r1 with
        | Some (props, payload) => Some (SPublish (bitn flags 8) qos (bitn flags 1) topic pid props payload)
        | None => None
        end
      | None => None
      end
    | None => None
    end
  else None.

(* 3.4 - 3.7 PUBACK, PUBREC, PUBREL, PUBCOMP *)
Definition s_ack (ptype : N) (codes : list N) (s : bytes) : option spec_packet :=
  match s_u16 s with
  | Some (pid, r) =>
    if 0 <? pid then
      match r with
      | [] => Some (SAck ptype pid 0 [])                               (* Remaining Length 2: Success *)
      | [rc] => if elem rc codes then Some (SAck ptype pid rc []) else None
      | rc :: r1 =>
        if elem rc codes then
          match all_consumed (s_prop_block ptype r1) with
          | Some props => Some (SAck ptype pid rc props)
          | None => None
          end
        else None
      end
    else None
  | None => None
  end.

(* 3.8 SUBSCRIBE *)
Fixpoint s_sub_filters (fuel : nat) (s : bytes) : option (list (bytes * (N * bool * bool * N))) :=
  match s with
  | [] => Some []
  | _ :: _ =>
    match fuel with
    | O => None
    | S f =>
      match s_str s with
      | Some (filter, o :: r) =>
        let qos := o mod 4 in
        let rh := (o / 16) mod 4 in
        if (qos <? 3) && (rh <? 3) && (o <? 64) then                     (* bits 6,7 reserved *)
          match s_sub_filters f r with
          | Some l => Some ((filter, (qos, bitn o 4, bitn o 8, rh)) :: l)
          | None => None
          end
        else None
      | _ => None
      end
    end
  end.

Definition s_subscribe (s : bytes) : option spec_packet :=
  match s_u16 s with
  | Some (pid, r) =>
    if 0 <? pid then
      match s_prop_block T_SUBSCRIBE r with
      | Some (props, r1) =>
        match s_sub_filters (length r1) r1 with
        | Some (f :: l) => Some (SSubscribe pid props (f :: l))          (* at least one [MQTT-3.8.3-2] *)
        | _ => None
        end
      | None => None
      end
    else None
  | None => None
  end.

(* 3.9 SUBACK / 3.11 UNSUBACK *)
Definition s_codes_ack (mk : N -> sprops -> list N -> spec_packet) (ptype : N) (codes : list N) (s : bytes)
  : option spec_packet :=
  match s_u16 s with
  | Some (pid, r) =>
    if 0 <? pid then
      match s_prop_block ptype r with
      | Some (props, r1) => if forallb (fun c => elem c codes) r1 then Some (mk pid props r1) else None
      | None => None
      end
    else None
  | None => None
  end.

(* 3.10 UNSUBSCRIBE *)
Fixpoint s_unsub_filters (fuel : nat) (s : bytes) : option (list bytes) :=
  match s with
  | [] => Some []
  | _ :: _ =>
    match fuel with
    | O => None
    | S f =>
      match s_str s with
      | Some (filter, r) =>
        match s_unsub_filters f r with Some l => Some (filter :: l) | None => None end
      | None => None
      end
    end
  end.

Definition s_unsubscribe (s : bytes) : option spec_packet :=
  match s_u16 s with
  | Some (pid, r) =>
    if 0 <? pid then
      match s_prop_block T_UNSUBSCRIBE r with
      | Some (props, r1) =>
        match s_unsub_filters (length r1) r1 with
        | Some (f :: l) => Some (SUnsubscribe pid props (f :: l))        (* at least one [MQTT-3.10.3-2] *)
        | _ => None
        end
      | None => None
      end
    else None
  | None => None
  end.

(* 3.14 DISCONNECT / 3.15 AUTH: reason code and property length may be omitted *)
Definition s_rc_props (mk : N -> sprops -> spec_packet) (ptype : N) (codes : list N) (s : bytes)
  : option spec_packet :=
  match s with
  | [] => Some (mk 0 [])
  | [rc] => if elem rc codes then Some (mk rc []) else None
  | rc :: r =>
    if elem rc codes then
      match all_consumed (s_prop_block ptype r) with
      | Some props => Some (mk rc props)
      | None => None
      end
    else None
  end.

(* 2.1.3 flags of the fixed header: reserved values *)
Definition fixed_flags_ok (ptype flags : N) : bool :=
  if ptype =? T_PUBLISH then true
  else if elem ptype [T_PUBREL; T_SUBSCRIBE; T_UNSUBSCRIBE] then flags =? 2
  else flags =? 0.

Definition s_body (ptype flags : N) (s : bytes) : option spec_packet :=
  if ptype =? T_CONNECT then s_connect s
  else if ptype =? T_CONNACK then s_connack s
  else if ptype =? T_PUBLISH then s_publish flags s
  else if ptype =? T_PUBACK then s_ack T_PUBACK rc_puback s
  else if ptype =? T_PUBREC then s_ack T_PUBREC rc_puback s
  else if ptype =? T_PUBREL then s_ack T_PUBREL rc_pubrel s
  else if ptype =? T_PUBCOMP then s_ack T_PUBCOMP rc_pubrel s
  else if ptype =? T_SUBSCRIBE then s_subscribe s
  else if ptype =? T_SUBACK then s_codes_ack SSubAck T_SUBACK rc_suback s
  else if ptype =? T_UNSUBSCRIBE then s_unsubscribe s
  else if ptype =? T_UNSUBACK then s_codes_ack SUnsubAck T_UNSUBACK rc_unsuback s
  else if ptype =? T_PINGREQ then match s with [] => Some SPingReq | _ => None end
  else if ptype =? T_PINGRESP then match s with [] => Some SPingResp | _ => None end
  else if ptype =? T_DISCONNECT then s_rc_props SDisconnect T_DISCONNECT rc_disconnect s
  else if ptype =? T_AUTH then s_rc_props SAuth T_AUTH rc_auth s
  else None.                                                             (* type 0 is reserved *)

(* 2.1 fixed header, 2.1.4 Remaining Length, then the packet *)
Definition spec_decode5 (s : bytes) : option (spec_packet * bytes) :=
  match s with
  | b0 :: r =>
    if b0 <? 256 then
      let ptype := b0 / 16 in
      let flags := b0 mod 16 in
      if fixed_flags_ok ptype flags then
        match s_varint r with
        | Some (rl, r1) =>
          if rl <=? len r1 then
            match s_body ptype flags (firstn (N.to_nat rl) r1) with
            | Some p => Some (p, skipn (N.to_nat rl) r1)
            | None => None
            end
          else None
        | None => None
        end
      else None
    else None
  | [] => None
  end.

(* ================================================================== abstraction of the model's packets.
   Properties are listed in the order in which the library writes them. *)
Definition sv (v : pval) : sval := match v with VN n => SN n | VB b => SB b | VP k x => SP k x end.
Definition to_sprops (its : pbag) : sprops := map (fun e => (fst e, sv (snd e))) its.

Definition oi (id : N) (o : option pval) : pbag := match o with Some v => [(id, v)] | None => [] end.
Definition oiN (id : N) (o : option N) : pbag := oi id (option_map VN o).
Definition oiB (id : N) (o : option bytes) : pbag := oi id (option_map VB o).
Definition ups_items (l : uprops) : pbag := map (fun p => (38, VP (fst p) (snd p))) l.
Definition diag_items (ups : uprops) (reason : option bytes) : pbag := ups_items ups ++ oiB 31 reason.

Definition connect_prop_items (c : connect) : pbag :=
  oiN 17 (if c_session_expiry_interval_secs c =? 0 then None else Some (c_session_expiry_interval_secs c)) ++
  oiB 21 (c_auth_method c) ++ oiB 22 (c_auth_data c) ++
  oiN 23 (if c_request_problem_info c then None else Some 0) ++
  oiN 25 (if c_request_response_info c then Some 1 else None) ++
  oiN 33 (c_receive_max c) ++ oiN 39 (c_max_packet_size c) ++
  oiN 34 (if c_topic_alias_max c =? 0 then None else Some (c_topic_alias_max c)) ++
  ups_items (c_user_properties c).

Definition will_prop_items (w : last_will) : pbag :=
  oiN 24 (lw_will_delay_interval_sec w) ++ oiN 1 (option_map b2n (lw_is_utf8_payload w)) ++
  oiN 2 (lw_message_expiry_interval w) ++ oiB 3 (lw_content_type w) ++ oiB 8 (lw_response_topic w) ++
  oiB 9 (lw_correlation_data w) ++ ups_items (lw_user_properties w).

Definition connack_prop_items (a : connect_ack) : pbag :=
  oiN 17 (ca_session_expiry_interval_secs a) ++
  oiN 33 (if ca_receive_max a =? 65535 then None else Some (ca_receive_max a)) ++
  oiN 36 (if ca_max_qos a <? 2 then Some (ca_max_qos a) else None) ++
  oiN 37 (if ca_retain_available a then None else Some 0) ++
  oiN 39 (ca_max_packet_size a) ++ oiB 18 (ca_assigned_client_id a) ++
  oiN 34 (if ca_topic_alias_max a =? 0 then None else Some (ca_topic_alias_max a)) ++
  oiN 40 (if ca_wildcard_subscription_available a then None else Some 0) ++
  oiN 41 (if ca_subscription_identifiers_available a then None else Some 0) ++
  oiN 42 (if ca_shared_subscription_available a then None else Some 0) ++
  oiN 19 (ca_server_keepalive_sec a) ++ oiB 26 (ca_response_info a) ++ oiB 28 (ca_server_reference a) ++
  oiB 21 (ca_auth_method a) ++ oiB 22 (ca_auth_data a) ++
  diag_items (ca_user_properties a) (ca_reason_string a).

Definition publish_prop_items (pp : publish_properties) : pbag :=
  oiN 35 (pp_topic_alias pp) ++ oiB 9 (pp_correlation_data pp) ++ oiN 2 (pp_message_expiry_interval pp) ++
  oiB 3 (pp_content_type pp) ++ oiN 1 (if pp_is_utf8_payload pp then Some 1 else None) ++
  oiB 8 (pp_response_topic pp) ++ map (fun i => (11, VN i)) (pp_subscription_ids pp) ++
  ups_items (pp_user_properties pp).

Definition to_spec_will (w : last_will) : swill :=
  mkSWill (lw_qos w) (lw_retain w) (to_sprops (will_prop_items w)) (lw_topic w) (lw_message w).

Definition to_spec (p : packet) : spec_packet :=
  match p with
  | Connect c =>
    SConnect (c_clean_start c) (c_keep_alive c) (to_sprops (connect_prop_items c)) (c_client_id c)
             (option_map to_spec_will (c_last_will c)) (c_username c) (c_password c)
  | ConnectAck a => SConnAck (ca_session_present a) (ca_reason_code a) (to_sprops (connack_prop_items a))
  | PublishAck a =>
    SAck T_PUBACK (pa_packet_id a) (pa_reason_code a) (to_sprops (diag_items (pa_properties a) (pa_reason_string a)))
  | PublishReceived a =>
    SAck T_PUBREC (pa_packet_id a) (pa_reason_code a) (to_sprops (diag_items (pa_properties a) (pa_reason_string a)))
  | PublishRelease a =>
    SAck T_PUBREL (pa2_packet_id a) (pa2_reason_code a)
         (to_sprops (diag_items (pa2_properties a) (pa2_reason_string a)))
  | PublishComplete a =>
    SAck T_PUBCOMP (pa2_packet_id a) (pa2_reason_code a)
         (to_sprops (diag_items (pa2_properties a) (pa2_reason_string a)))
  | Subscribe s =>
    SSubscribe (s_packet_id s) (to_sprops (oiN 11 (s_id s) ++ ups_items (s_user_properties s)))
      (map (fun fo => (fst fo, (so_qos (snd fo), so_no_local (snd fo), so_retain_as_published (snd fo),
                                so_retain_handling (snd fo)))) (s_topic_filters s))
  | SubscribeAck a =>
    SSubAck (sa_packet_id a) (to_sprops (diag_items (sa_properties a) (sa_reason_string a))) (sa_status a)
  | Unsubscribe u => SUnsubscribe (u_packet_id u) (to_sprops (ups_items (u_user_properties u))) (u_topic_filters u)
  | UnsubscribeAck a =>
    SUnsubAck (ua_packet_id a) (to_sprops (diag_items (ua_properties a) (ua_reason_string a))) (ua_status a)
  | PingRequest => SPingReq
  | PingResponse => SPingResp
  | Disconnect d =>
    SDisconnect (d_reason_code d)
      (to_sprops (oiN 17 (d_session_expiry_interval_secs d) ++ oiB 28 (d_server_reference d) ++
               diag_items (d_user_properties d) (d_reason_string d)))
  | Auth a =>
    SAuth (a_reason_code a)
      (to_sprops (oiB 21 (a_auth_method a) ++ oiB 22 (a_auth_data a) ++
               diag_items (a_user_properties a) (a_reason_string a)))
  end.

Definition to_spec_publish (p : publish) (payload : bytes) : spec_packet :=
  SPublish (p_dup p) (p_qos p) (p_retain p) (p_topic p) (p_packet_id p)
           (to_sprops (publish_prop_items (p_properties p))) payload.

(* ------------------------------------------------------------------ legality of abstract packets: the
   restrictions of the standard that the model's encoding domain does not already imply *)
Definition sval_legal (id : N) (v : sval) : bool :=
  prop_value_ok id v &&
  match v with
  | SN _ => true
  | SB b => match prop_lookup id with Some (WStr, _) => s_text_ok b | _ => true end
  | SP k x => s_text_ok k && s_text_ok x
  end.
Definition sprops_legal (ps : sprops) : bool := forallb (fun e => sval_legal (fst e) (snd e)) ps.

Definition spec_legal (p : spec_packet) : bool :=
  match p with
  | SConnect _ _ props cid will user _ =>
    sprops_legal props && s_text_ok cid &&
    match will with Some w => sprops_legal (sw_props w) && s_text_ok (sw_topic w) | None => true end &&
    match user with Some u => s_text_ok u | None => true end
  | SConnAck _ _ props => sprops_legal props
  | SPublish _ _ _ topic _ props _ => sprops_legal props && s_text_ok topic
  | SAck _ _ _ props => sprops_legal props
  | SSubscribe _ props fl =>
    sprops_legal props && negb (match fl with [] => true | _ => false end) &&
    forallb (fun f => s_text_ok (fst f)) fl
  | SSubAck _ props _ => sprops_legal props
  | SUnsubscribe _ props fl =>
    sprops_legal props && negb (match fl with [] => true | _ => false end) && forallb s_text_ok fl
  | SUnsubAck _ props _ => sprops_legal props
  | SPingReq | SPingResp => true
  | SDisconnect _ props => sprops_legal props
  | SAuth _ props => sprops_legal props
  end.
