(* Extract/Extract.v -- extraction of the engines for the correspondence check.
   Only ExtrOcamlBasic: bool, option, unit, list, prod, sumbool, sumor map to OCaml's;
   N, positive, nat stay the extracted inductive types. No Extract Constant. *)
From Coq Require Import Extraction ExtrOcamlBasic.
From MV Require Import Base.Prelude Model.Engines.
Cd "../ocaml".
Extraction "model.ml" run oracle.
Cd "../coq".
