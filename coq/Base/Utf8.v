(* Base/Utf8.v -- well-formed UTF-8 (RFC 3629, Unicode table 3-7), executable.
   [utf8_valid s = true] iff Rust's [std::str::from_utf8 s] is Ok (what ntex_bytes::ByteString::try_from
   checks): shortest form only (no C0/C1 leads, E0 needs A0.., F0 needs 90..), no surrogates
   (ED needs ..9F), nothing above U+10FFFF (F4 needs ..8F, no F5..FF).

     00..7F
     C2..DF  80..BF
     E0      A0..BF  80..BF
     E1..EC  80..BF  80..BF
     ED      80..9F  80..BF
     EE..EF  80..BF  80..BF
     F0      90..BF  80..BF  80..BF
     F1..F3  80..BF  80..BF  80..BF
     F4      80..8F  80..BF  80..BF

   Definitions only. *)
From MV Require Import Base.Prelude.

Definition in_rng (lo hi b : N) : bool := (lo <=? b) && (b <=? hi).

(* continuation byte 10xxxxxx *)
Definition utf8_cont (b : N) : bool := in_rng 128 191 b.

(* admissible second byte after a 3-byte lead / a 4-byte lead *)
Definition utf8_second3 (b0 b1 : N) : bool :=
  if b0 =? 224 then in_rng 160 191 b1
  else if b0 =? 237 then in_rng 128 159 b1
  else utf8_cont b1.

Definition utf8_second4 (b0 b1 : N) : bool :=
  if b0 =? 240 then in_rng 144 191 b1
  else if b0 =? 244 then in_rng 128 143 b1
  else utf8_cont b1.

Fixpoint utf8_valid (s : bytes) : bool :=
  match s with
  | [] => true
  | b0 :: r =>
    if b0 <? 128 then utf8_valid r
    else if in_rng 194 223 b0 then
      match r with
      | b1 :: r1 => utf8_cont b1 && utf8_valid r1
      | _ => false
      end
    else if in_rng 224 239 b0 then
      match r with
      | b1 :: b2 :: r2 => utf8_second3 b0 b1 && utf8_cont b2 && utf8_valid r2
      | _ => false
      end
    else if in_rng 240 244 b0 then
      match r with
      | b1 :: b2 :: b3 :: r3 => utf8_second4 b0 b1 && utf8_cont b2 && utf8_cont b3 && utf8_valid r3
      | _ => false
      end
    else false
  end.

(* ---- reference side: Unicode scalar values and their encoding (for round-trip statements) ---- *)
Definition scalar_ok (c : N) : bool := (c <? 55296) || (in_rng 57344 1114111 c).

Definition utf8_encode_scalar (c : N) : bytes :=
  if c <? 128 then [c]
  else if c <? 2048 then [192 + c / 64; 128 + c mod 64]
  else if c <? 65536 then [224 + c / 4096; 128 + (c / 64) mod 64; 128 + c mod 64]
  else [240 + c / 262144; 128 + (c / 4096) mod 64; 128 + (c / 64) mod 64; 128 + c mod 64].

Definition utf8_encode (cs : list N) : bytes := flat_map utf8_encode_scalar cs.

(* decoder to scalar values: None on ill-formed input *)
Fixpoint utf8_decode (s : bytes) : option (list N) :=
  match s with
  | [] => Some []
  | b0 :: r =>
    if b0 <? 128 then option_map (cons b0) (utf8_decode r)
    else if in_rng 194 223 b0 then
      match r with
      | b1 :: r1 =>
        if utf8_cont b1 then option_map (cons ((b0 - 192) * 64 + (b1 - 128))) (utf8_decode r1) else None
      | _ => None
      end
    else if in_rng 224 239 b0 then
      match r with
      | b1 :: b2 :: r2 =>
        if utf8_second3 b0 b1 && utf8_cont b2
        then option_map (cons ((b0 - 224) * 4096 + (b1 - 128) * 64 + (b2 - 128))) (utf8_decode r2)
        else None
      | _ => None
      end
    else if in_rng 240 244 b0 then
      match r with
      | b1 :: b2 :: b3 :: r3 =>
        if utf8_second4 b0 b1 && utf8_cont b2 && utf8_cont b3
        then option_map (cons ((b0 - 240) * 262144 + (b1 - 128) * 4096 + (b2 - 128) * 64 + (b3 - 128)))
                        (utf8_decode r3)
        else None
      | _ => None
      end
    else None
  end.
