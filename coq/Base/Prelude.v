(* Base/Prelude.v -- shared vocabulary of every model.
   A byte is an [N] (< 256 by convention, enforced where it matters by [byte_ok]);
   byte strings are [list N].  Every engine of the correspondence check has the
   uniform shape  [list (list N) -> list (list N)]  (a case is a list of numeric
   fields, an observation is a list of numeric fields), so that the Rust harness,
   the extracted OCaml driver and [Eval vm_compute] inside coqc all read and print
   the same text. *)
From Coq Require Export List NArith Bool Lia.
Export ListNotations.
Open Scope N_scope.

Arguments N.add : simpl never.
Arguments N.sub : simpl never.
Arguments N.mul : simpl never.
Arguments N.eqb : simpl never.
Arguments N.ltb : simpl never.
Arguments N.leb : simpl never.
Arguments N.div : simpl never.
Arguments N.modulo : simpl never.

Definition byte := N.
Definition bytes := list N.

Definition byte_ok (b : N) : bool := b <? 256.
Definition bytes_ok (s : bytes) : bool := forallb byte_ok s.

Fixpoint bytes_eqb (a b : bytes) : bool :=
  match a, b with
  | [], [] => true
  | x :: a', y :: b' => (x =? y) && bytes_eqb a' b'
  | _, _ => false
  end.

Lemma bytes_eqb_eq a b : bytes_eqb a b = true <-> a = b.
Proof.
  revert b; induction a as [|x a IH]; intros [|y b]; cbn [bytes_eqb]; split; intros H;
    try reflexivity; try discriminate.
  - apply andb_true_iff in H as [H1 H2]. apply N.eqb_eq in H1. apply IH in H2. congruence.
  - injection H as -> ->. apply andb_true_iff; split; [apply N.eqb_refl | now apply IH].
Qed.

Lemma bytes_eqb_refl a : bytes_eqb a a = true.
Proof. now apply bytes_eqb_eq. Qed.

Lemma bytes_eqb_neq a b : bytes_eqb a b = false <-> a <> b.
Proof.
  split.
  - intros H E. apply bytes_eqb_eq in E. congruence.
  - intros H. destruct (bytes_eqb a b) eqn:E; [|reflexivity]. apply bytes_eqb_eq in E. contradiction.
Qed.

Definition len (s : bytes) : N := N.of_nat (length s).

Definition b2n (b : bool) : N := if b then 1 else 0.
