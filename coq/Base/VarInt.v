(* Base/VarInt.v -- MQTT variable byte integer: model of
     utils::write_variable_length, utils::decode_variable_length_cursor,
     utils::decode_variable_length, v5::codec::encode::{var_int_len, var_int_len_u32,
     var_int_len_from_size, reduce_limit}.  Definitions only; proofs in Proofs/VarIntProofs.v. *)
From MV Require Import Base.Prelude Base.Res.

Definition VI_MAX : N := 268435455.   (* 2^28 - 1 *)

(* write_variable_length: None = the panic!("length is too big") branch *)
Definition enc_vi (n : N) : option bytes :=
  if n <=? 127 then Some [n]
  else if n <=? 16383 then Some [n mod 128 + 128; n / 128]
  else if n <=? 2097151 then Some [n mod 128 + 128; (n / 128) mod 128 + 128; n / 16384]
  else if n <=? VI_MAX then
    Some [n mod 128 + 128; (n / 128) mod 128 + 128; (n / 16384) mod 128 + 128; n / 2097152]
  else None.

Definition write_vi (n : N) : res bytes :=
  match enc_vi n with Some b => Ok b | None => Panic PS_varlen_too_big end.

(* decode_variable_length_cursor: loop with shift = 0,7,14,21; fuel = bytes it may still read.
   Result: value and rest.  Err MalformedPacket = ran out of bytes; Err InvalidLength = a fifth byte
   would be needed. *)
Fixpoint dec_vi_go (fuel : nat) (mult : N) (acc : N) (s : bytes) : res (N * bytes) :=
  match s with
  | [] => Err DE_MalformedPacket
  | b :: r =>
    let acc' := acc + (b mod 128) * mult in
    if b <? 128 then Ok (acc', r)
    else match fuel with
         | O => Err DE_InvalidLength          (* ensure!(shift < 21) *)
         | S k => dec_vi_go k (mult * 128) acc' r
         end
  end.
Definition dec_vi (s : bytes) : res (N * bytes) := dec_vi_go 3 1 0 s.

(* decode_variable_length(src): Ok(Some(len, consumed)) / Ok(None) (need more) / Err *)
Definition dec_vi_opt (s : bytes) : res (option (N * N)) :=
  match dec_vi s with
  | Ok (v, r) => Ok (Some (v, len s - len r))
  | Err e => if e =? DE_MalformedPacket then Ok None else Err e
  | Panic p => Panic p
  end.

(* var_int_len / var_int_len_u32 by value (the Rust is a table indexed by leading_zeros) *)
Definition var_int_len (n : N) : N :=
  if n <? 128 then 1
  else if n <? 16384 then 2
  else if n <? 2097152 then 3
  else if n <? 268435456 then 4
  else if n <? 34359738368 then 5
  else if n <? 4398046511104 then 6
  else if n <? 562949953421312 then 7
  else if n <? 72057594037927936 then 8
  else if n <? 9223372036854775808 then 9
  else 10.

(* var_int_len_from_size(val): val - over_size + 1 and the second subtraction are plain u32
   subtractions in the Rust *)
Definition var_int_len_from_size (val : N) : res N :=
  let over := var_int_len val in
  let* a := sub_chk val over in
  let res1 := a + 1 in
  sub_chk val (var_int_len res1).

Definition reduce_limit (limit reduction : N) : N :=
  if limit <? reduction then 0 else limit - reduction.
