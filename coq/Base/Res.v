(* Base/Res.v -- result type with an explicit Panic outcome, error codes, writer. *)
From MV Require Import Base.Prelude.

Inductive res (A : Type) : Type :=
| Ok (a : A)
| Err (e : N)          (* an error value returned by the Rust code (code below) *)
| Panic (site : N).    (* the Rust code would panic / overflow here (site number) *)
Arguments Ok {A} a.
Arguments Err {A} e.
Arguments Panic {A} site.

Definition bind {A B} (r : res A) (f : A -> res B) : res B :=
  match r with Ok a => f a | Err e => Err e | Panic s => Panic s end.
Notation "'let*' x ':=' r 'in' k" := (bind r (fun x => k))
  (at level 200, x pattern, r at level 100, k at level 200).

Definition ensure (c : bool) (e : N) : res unit := if c then Ok tt else Err e.

(* DecodeError *)
Definition DE_InvalidProtocol : N := 1.
Definition DE_InvalidLength : N := 2.
Definition DE_MalformedPacket : N := 3.
Definition DE_UnsupportedProtocolLevel : N := 4.
Definition DE_ConnectReservedFlagSet : N := 5.
Definition DE_ConnAckReservedFlagSet : N := 6.
Definition DE_InvalidClientId : N := 7.
Definition DE_UnsupportedPacketType : N := 8.
Definition DE_PacketIdRequired : N := 9.
Definition DE_MaxSizeExceeded : N := 10.
Definition DE_Utf8Error : N := 11.
Definition DE_UnexpectedPayload : N := 12.

(* EncodeError *)
Definition EE_OverMaxPacketSize : N := 21.
Definition EE_OverPublishSize : N := 22.
Definition EE_PublishIncomplete : N := 23.
Definition EE_InvalidLength : N := 24.
Definition EE_MalformedPacket : N := 25.
Definition EE_PacketIdRequired : N := 26.
Definition EE_UnexpectedPayload : N := 27.
Definition EE_ExpectPayload : N := 28.
Definition EE_UnsupportedVersion : N := 29.

(* panic sites *)
Definition PS_varlen_too_big : N := 101.      (* utils::write_variable_length panic!("length is too big") *)
Definition PS_sub_overflow : N := 102.        (* unchecked unsigned subtraction underflow *)
Definition PS_add_overflow : N := 103.
Definition PS_unwrap : N := 104.
Definition PS_index : N := 105.

(* checked arithmetic on machine integers (debug-build semantics) *)
Definition U32MAX : N := 4294967295.
Definition U64MAX : N := 18446744073709551615.
Definition sub_chk (a b : N) : res N := if b <=? a then Ok (a - b) else Panic PS_sub_overflow.
Definition add_chk32 (a b : N) : res N := if a + b <=? U32MAX then Ok (a + b) else Panic PS_add_overflow.

(* numeric rendering of results for the engines *)
Definition show_res {A} (f : A -> list (list N)) (r : res A) : list (list N) :=
  match r with
  | Ok a => [0] :: f a
  | Err e => [[1; e]]
  | Panic _ => [[9999]]
  end.
