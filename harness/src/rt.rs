//! Runtime helpers shared by the stateful engines: one single-threaded ntex runtime,
//! hand polling of futures, quiescence ("settle"), gates.
use std::cell::RefCell;
use std::collections::HashMap;
use std::future::Future;
use std::pin::Pin;
use std::rc::Rc;
use std::task::{Context, Poll, Waker};

/// run `f` on a fresh ntex system (current thread)
pub fn block_on<F: Future<Output = ()> + 'static>(f: F) {
    ntex::rt::System::build().name("mv").testing().build(ntex::rt::DefaultRuntime).block_on(f);
}

/// let every spawned task (io read/write tasks, dispatcher, spawned responses) run until nothing
/// more happens: a fixed number of scheduler rounds, each hop of a wake chain needs one round
pub async fn settle() {
    for _ in 0..40 {
        ntex_util::task::yield_to().await;
    }
}

/// poll a future once with a no-op waker
pub fn poll_once<T>(fut: &mut Pin<Box<dyn Future<Output = T>>>) -> Poll<T> {
    let waker = Waker::noop();
    let mut cx = Context::from_waker(waker);
    fut.as_mut().poll(&mut cx)
}

/// A one-shot gate table: handlers await `wait(id)`, the harness opens with `open(id, value)`.
/// Opening before the handler waits is remembered.
pub struct Gates<T> {
    inner: Rc<RefCell<GatesInner<T>>>,
}

struct GatesInner<T> {
    values: HashMap<u64, T>,
    wakers: HashMap<u64, Waker>,
}

impl<T> Clone for Gates<T> {
    fn clone(&self) -> Self {
        Gates { inner: self.inner.clone() }
    }
}

impl<T: 'static> Gates<T> {
    pub fn new() -> Self {
        Gates { inner: Rc::new(RefCell::new(GatesInner { values: HashMap::new(), wakers: HashMap::new() })) }
    }

    pub fn open(&self, id: u64, v: T) {
        let mut g = self.inner.borrow_mut();
        g.values.insert(id, v);
        if let Some(w) = g.wakers.remove(&id) {
            w.wake();
        }
    }

    pub fn is_waiting(&self, id: u64) -> bool {
        self.inner.borrow().wakers.contains_key(&id)
    }

    pub fn wait(&self, id: u64) -> impl Future<Output = T> + 'static {
        let inner = self.inner.clone();
        std::future::poll_fn(move |cx| {
            let mut g = inner.borrow_mut();
            if let Some(v) = g.values.remove(&id) {
                g.wakers.remove(&id);
                Poll::Ready(v)
            } else {
                g.wakers.insert(id, cx.waker().clone());
                Poll::Pending
            }
        })
    }
}
