//! mv-harness: drives the real ntex-mqtt crate on case files.
//!
//! usage: mv-harness <engine>   (cases on stdin, observations on stdout)
//! A case is one line: fields separated by ';', numbers (decimal) separated by ','.
//! An observation has the same shape.  A panic inside the crate is the observation `9999`.
use std::io::{BufRead, Write};

mod engines;
mod conn;
mod rt;

pub type Fields = Vec<Vec<u64>>;

pub fn parse_line(l: &str) -> Fields {
    l.split(';')
        .map(|f| {
            let f = f.trim();
            if f.is_empty() {
                Vec::new()
            } else {
                f.split(',').map(|n| n.trim().parse::<u64>().expect("number")).collect()
            }
        })
        .collect()
}

pub fn show_line(f: &Fields) -> String {
    f.iter()
        .map(|x| x.iter().map(|n| n.to_string()).collect::<Vec<_>>().join(","))
        .collect::<Vec<_>>()
        .join(";")
}

pub fn bytes_of(f: &[u64]) -> Vec<u8> {
    f.iter().map(|b| *b as u8).collect()
}

pub fn nums_of(b: &[u8]) -> Vec<u64> {
    b.iter().map(|b| u64::from(*b)).collect()
}

fn main() {
    let args: Vec<String> = std::env::args().collect();
    let engine = args.get(1).expect("engine name").clone();
    if std::env::var("MV_PANIC_MSG").is_err() {
        std::panic::set_hook(Box::new(|_| {}));
    }
    let stdin = std::io::stdin();
    let stdout = std::io::stdout();
    let mut out = std::io::BufWriter::new(stdout.lock());
    if engines::run_stream(&engine, &mut stdin.lock(), &mut out) {
        out.flush().unwrap();
        return;
    }
    let f = engines::lookup(&engine).unwrap_or_else(|| panic!("unknown engine {engine}"));
    for line in stdin.lock().lines() {
        let line = line.unwrap();
        if line.starts_with('#') {
            continue;
        }
        let case = parse_line(&line);
        let obs = match std::panic::catch_unwind(std::panic::AssertUnwindSafe(|| f(&case))) {
            Ok(o) => o,
            Err(_) => vec![vec![9999]],
        };
        writeln!(out, "{}", show_line(&obs)).unwrap();
    }
    out.flush().unwrap();
}
