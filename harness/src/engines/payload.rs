//! engine "payload" (number 41): the publish payload handed to a handler, `ntex_mqtt::Payload`
//! (`from_stream` / `from_bytes`, `read`, `read_all`, `take`) on top of ntex-util's `bstream`
//! channel, fed the way the dispatchers feed it (connection-level clause of property C10).
//! Everything is hand polled with a flag waker; bstream needs no runtime.
//!
//! case: first field `mode,buf_size,first_len`
//!   mode 0  streamed payload `verif_hooks::payload_stream(first piece, buf_size)` (= Payload::from_stream),
//!           the handler calls `read()` in a loop until Ok(None) / Err
//!   mode 1  streamed payload, the handler awaits `read_all()`
//!   mode 2  `Payload::from_bytes(first piece)`, `read()` loop      (there is no sender: ops 1..3 do nothing)
//!   mode 3  `Payload::from_bytes(first piece)`, `read_all()`
//! The bytes of the payload are a running counter 0,1,2,.. (mod 256): the first piece takes the
//! first `first_len` values, every fed chunk continues.  Lengths are capped at 4096.
//! then one field per operation
//!   1,len  feed_data(len bytes)
//!   2      feed_eof()
//!   3      set_error(PayloadError::Disconnected)                     (drop_payload)
//!   4      the reader task is polled once: mode 0/2 one poll of the current `read()` future (a new one
//!          after the previous answered Ready), mode 1/3 one poll of the `read_all()` future; nothing
//!          once the reader has finished
//!   5      the handler moves the payload out with `Payload::take` and goes on with the taken one;
//!          possible only while no read()/read_all() future borrows the payload, otherwise nothing.
//!          What `self` keeps is probed: read() polled once must answer Ok(None), read_all() Err(Consumed)
//! observation: one field per operation `status,woken,rem,chunks,bytes..`
//!   status  0 the reader has not finished, 1 finished Ok (read() answered Ok(None) / read_all() Ok(..)),
//!           2 finished Err(Disconnected), 3 Err(Consumed), 4 Err(Service), 5 Err(Protocol)
//!   woken   the reader's waker has been woken since the reader's last poll
//!   rem     0 no take happened in this op, 1 the remnant of take() is empty, 2 it is not
//!   chunks  mode 0/2 number of chunks read() has returned; mode 1/3 1 once read_all returned Ok
//!   bytes   all bytes the handler holds so far (mode 1/3: the result of read_all once it finished Ok)
use std::future::Future;
use std::pin::Pin;
use std::sync::Arc;
use std::sync::atomic::{AtomicBool, Ordering};
use std::task::{Context, Poll, Wake, Waker};

use ntex_bytes::Bytes;
use ntex_mqtt::Payload;
use ntex_mqtt::error::PayloadError;
use ntex_mqtt::verif_hooks::{PayloadSender, payload_stream};

use crate::Fields;

const MAXLEN: u64 = 4096;

struct Flag(AtomicBool);

impl Wake for Flag {
    fn wake(self: Arc<Self>) {
        self.0.store(true, Ordering::SeqCst);
    }
    fn wake_by_ref(self: &Arc<Self>) {
        self.0.store(true, Ordering::SeqCst);
    }
}

type ReadFut = Pin<Box<dyn Future<Output = (Payload, Result<Option<Bytes>, PayloadError>)>>>;
type AllFut = Pin<Box<dyn Future<Output = (Payload, Result<Bytes, PayloadError>)>>>;

enum Reader {
    /// no future borrows the payload
    Idle(Payload),
    /// a `read()` future answered Pending
    Read(ReadFut),
    /// the `read_all()` future answered Pending
    All(AllFut),
    Gone,
}

fn code(e: &PayloadError) -> u64 {
    match e {
        PayloadError::Disconnected => 1,
        PayloadError::Consumed => 2,
        PayloadError::Service => 3,
        PayloadError::Protocol(_) => 4,
    }
}

fn counter(ctr: &mut u64, n: u64) -> Bytes {
    let v: Vec<u8> = (0..n).map(|i| ((*ctr + i) % 256) as u8).collect();
    *ctr += n;
    Bytes::from(v)
}

pub fn run(c: &Fields) -> Fields {
    let Some(cfg) = c.first().filter(|f| f.len() == 3 && f[0] <= 3) else {
        return vec![vec![9997]];
    };
    let mode = cfg[0];
    let read_all = mode == 1 || mode == 3;
    let mut ctr = 0u64;
    let first = counter(&mut ctr, cfg[2].min(MAXLEN));
    let (pl, tx): (Payload, Option<PayloadSender>) = if mode < 2 {
        let (pl, tx) = payload_stream(first, usize::try_from(cfg[1]).unwrap_or(usize::MAX));
        (pl, Some(tx))
    } else {
        (Payload::from_bytes(first), None)
    };

    let flag = Arc::new(Flag(AtomicBool::new(false)));
    let waker = Waker::from(flag.clone());

    let mut reader = Reader::Idle(pl);
    let mut status = 0u64;
    let mut chunks = 0u64;
    let mut held: Vec<u64> = Vec::new();
    let mut obs = Fields::new();

    for op in &c[1..] {
        let mut rem = 0u64;
        match op.as_slice() {
            [1, n] => {
                let data = counter(&mut ctr, (*n).min(MAXLEN));
                if let Some(tx) = &tx {
                    tx.feed_data(data);
                }
            }
            [2] => {
                if let Some(tx) = &tx {
                    tx.feed_eof();
                }
            }
            [3] => {
                if let Some(tx) = &tx {
                    tx.set_disconnected();
                }
            }
            [4] if status == 0 => {
                let mut cx = Context::from_waker(&waker);
                if read_all {
                    let mut fut: AllFut = match std::mem::replace(&mut reader, Reader::Gone) {
                        Reader::Idle(pl) => Box::pin(async move {
                            let r = pl.read_all().await;
                            (pl, r)
                        }),
                        Reader::All(f) => f,
                        _ => unreachable!(),
                    };
                    flag.0.store(false, Ordering::SeqCst);
                    match fut.as_mut().poll(&mut cx) {
                        Poll::Pending => reader = Reader::All(fut),
                        Poll::Ready((pl, r)) => {
                            reader = Reader::Idle(pl);
                            match r {
                                Ok(b) => {
                                    status = 1;
                                    chunks = 1;
                                    held.extend(crate::nums_of(&b));
                                }
                                Err(e) => status = 1 + code(&e),
                            }
                        }
                    }
                } else {
                    let mut fut: ReadFut = match std::mem::replace(&mut reader, Reader::Gone) {
                        Reader::Idle(pl) => Box::pin(async move {
                            let r = pl.read().await;
                            (pl, r)
                        }),
                        Reader::Read(f) => f,
                        _ => unreachable!(),
                    };
                    flag.0.store(false, Ordering::SeqCst);
                    match fut.as_mut().poll(&mut cx) {
                        Poll::Pending => reader = Reader::Read(fut),
                        Poll::Ready((pl, r)) => {
                            reader = Reader::Idle(pl);
                            match r {
                                Ok(Some(b)) => {
                                    chunks += 1;
                                    held.extend(crate::nums_of(&b));
                                }
                                Ok(None) => status = 1,
                                Err(e) => status = 1 + code(&e),
                            }
                        }
                    }
                }
            }
            [5] => {
                reader = match std::mem::replace(&mut reader, Reader::Gone) {
                    Reader::Idle(mut pl) => {
                        let taken = pl.take();
                        // probe what `self` keeps, with a waker of its own
                        let mut cx = Context::from_waker(Waker::noop());
                        let a = {
                            let mut f = Box::pin(pl.read());
                            matches!(f.as_mut().poll(&mut cx), Poll::Ready(Ok(None)))
                        };
                        let b = {
                            let mut f = Box::pin(pl.read_all());
                            matches!(f.as_mut().poll(&mut cx), Poll::Ready(Err(PayloadError::Consumed)))
                        };
                        rem = if a && b && pl.is_fixed() { 1 } else { 2 };
                        Reader::Idle(taken)
                    }
                    // a pending future borrows the payload: take() is not possible
                    other => other,
                };
            }
            _ => {}
        }
        let mut f = vec![status, u64::from(flag.0.load(Ordering::SeqCst)), rem, chunks];
        f.extend_from_slice(&held);
        obs.push(f);
    }
    obs
}
