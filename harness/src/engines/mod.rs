use crate::Fields;

pub mod codec3;
pub mod codec5;
pub mod topic;

pub type Engine = fn(&Fields) -> Fields;

pub fn lookup(name: &str) -> Option<Engine> {
    match name {
        "topic" => Some(topic::run),
        _ => codec3::lookup(name).or_else(|| codec5::lookup(name)),
    }
}

/// engines that need their own runtime / line loop
pub fn run_stream(
    _name: &str,
    _inp: &mut dyn std::io::BufRead,
    _out: &mut dyn std::io::Write,
) -> bool {
    false
}
