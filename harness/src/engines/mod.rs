use crate::Fields;

pub mod codec3;
pub mod codec5;
pub mod ctlwrap;
pub mod hs;
pub mod inbound;
pub mod iostate;
pub mod limiter;
pub mod payload;
pub mod plstop;
pub mod respq;
pub mod selftest;
pub mod sink;
pub mod timerrt;
pub mod topic;

pub type Engine = fn(&Fields) -> Fields;

pub fn lookup(name: &str) -> Option<Engine> {
    match name {
        "topic" => Some(topic::run),
        // hand polled, needs no runtime: a plain per-line engine (a panic of the crate prints 9999)
        "limiter" => Some(limiter::run),
        "payload" => Some(payload::run),
        _ => codec3::lookup(name).or_else(|| codec5::lookup(name)),
    }
}

/// engines that need their own runtime / line loop
pub fn run_stream(
    name: &str,
    inp: &mut dyn std::io::BufRead,
    out: &mut dyn std::io::Write,
) -> bool {
    // async engines: all cases of the input run on one single-threaded ntex runtime
    let lines: Vec<String> = match name {
        "respq" | "selftest" | "sink3" | "sink5" | "inb3" | "inb5" | "inb3b" | "inb5b" | "cli3" | "cli5" | "hs" | "iostate" | "timerrt" | "plstop3" | "plstop5" | "ctlwrap3" | "ctlwrap5" => {
            let mut text = String::new();
            inp.read_to_string(&mut text).unwrap();
            text.lines().map(str::to_string).collect()
        }
        _ => return false,
    };
    if name == "sink3" || name == "sink5" {
        // own runtime loop: a panic escaping the per-task guards ends one case, not the run
        for l in sink::run_lines(name == "sink5", lines) {
            writeln!(out, "{l}").unwrap();
        }
        return true;
    }
    if name == "ctlwrap3" || name == "ctlwrap5" {
        for l in ctlwrap::run_lines(name == "ctlwrap5", lines) {
            writeln!(out, "{l}").unwrap();
        }
        return true;
    }
    if name == "plstop3" || name == "plstop5" {
        for l in plstop::run_lines(name == "plstop5", lines) {
            writeln!(out, "{l}").unwrap();
        }
        return true;
    }
    if name == "timerrt" {
        for l in timerrt::run_lines(lines) {
            writeln!(out, "{l}").unwrap();
        }
        return true;
    }
    if name == "iostate" {
        for l in iostate::run_lines(lines) {
            writeln!(out, "{l}").unwrap();
        }
        return true;
    }
    if name == "hs" {
        for l in hs::run_lines(lines) {
            writeln!(out, "{l}").unwrap();
        }
        return true;
    }
    if name == "cli3" || name == "cli5" {
        for l in inbound::run_client_lines(name == "cli5", lines) {
            writeln!(out, "{l}").unwrap();
        }
        return true;
    }
    if name == "inb3" || name == "inb5" || name == "inb3b" || name == "inb5b" {
        for l in inbound::run_lines(name.starts_with("inb5"), lines) {
            writeln!(out, "{l}").unwrap();
        }
        return true;
    }
    let name = name.to_string();
    let results = std::rc::Rc::new(std::cell::RefCell::new(Vec::new()));
    let r2 = results.clone();
    crate::rt::block_on(async move {
        for line in lines {
            if line.starts_with('#') {
                continue;
            }
            let case = crate::parse_line(&line);
            let obs = match name.as_str() {
                "respq" => respq::run_case(&case).await,
                "selftest" => selftest::run_case(&case).await,
                _ => unreachable!(),
            };
            r2.borrow_mut().push(crate::show_line(&obs));
        }
    });
    for l in results.borrow().iter() {
        writeln!(out, "{l}").unwrap();
    }
    true
}
