//! engine "respq": the response re-sequencing queue of io::Dispatcher (property C04), driven
//! through the cfg(ntex_mqtt_verif) dispatcher hook with a one-byte-per-frame codec.
//!
//! case: one field per operation
//!   1,id,mode        request `id` (1..=250) arrives; mode 0 = handler deferred, 1 = answers at once
//!                    with Some(id), 2 = answers at once with None
//!   2,id,res         the deferred handler of request `id` completes: res 0 = Some(id), 1 = None
//!   3,id,mode,id,mode,...   several requests arrive in ONE write
//! observation: one field per operation: all bytes the peer has received so far
use std::cell::RefCell;
use std::collections::HashMap;
use std::rc::Rc;

use ntex::service::{cfg::SharedCfg, fn_service};
use ntex::util::{Bytes, BytesMut};
use ntex_bytes::BytePages;
use ntex_codec::{Decoder, Encoder};
use ntex_io::{Io, IoBoxed, testing::IoTest};
use ntex_mqtt::error::{DecodeError, DispatcherError, EncodeError};
use ntex_mqtt::{Control, verif_hooks};

use crate::rt::{Gates, settle};
use crate::{Fields, nums_of};

#[derive(Clone, Debug)]
struct ByteCodec;

impl Encoder for ByteCodec {
    type Item = Bytes;
    type Error = EncodeError;
    fn encodev(&self, item: Bytes, dst: &mut BytePages) -> Result<(), EncodeError> {
        dst.append(item);
        Ok(())
    }
}

impl Decoder for ByteCodec {
    type Item = Bytes;
    type Error = DecodeError;
    fn decode(&self, src: &mut BytesMut) -> Result<Option<Bytes>, DecodeError> {
        if src.is_empty() { Ok(None) } else { Ok(Some(src.split_to(1))) }
    }
}

pub async fn run_case(c: &Fields) -> Fields {
    let (client, server) = IoTest::create();
    client.remote_buffer_cap(1 << 20);
    let io: IoBoxed = Io::new(server, SharedCfg::new("RQ")).into();
    let gates: Gates<u64> = Gates::new();
    let modes: Rc<RefCell<HashMap<u64, u64>>> = Rc::new(RefCell::new(HashMap::new()));
    let g2 = gates.clone();
    let m2 = modes.clone();
    let service = fn_service(move |req: Bytes| {
        let id = u64::from(req[0]);
        let mode = *m2.borrow().get(&id).unwrap_or(&0);
        let gate = g2.clone();
        async move {
            let res = if mode == 0 { gate.wait(id).await } else { mode - 1 };
            Ok::<_, DispatcherError<()>>(if res == 0 { Some(Bytes::from(vec![id as u8])) } else { None })
        }
    });
    let control = fn_service(|_: Control<()>| async { Ok::<_, ()>(None::<Bytes>) });
    let disp = verif_hooks::dispatcher(io, ByteCodec, service, control, ntex::time::Seconds::ZERO);
    let handle = ntex::rt::spawn(async move {
        let _ = disp.await;
    });
    settle().await;

    let mut seen: Vec<u8> = Vec::new();
    let mut obs = Fields::new();
    for op in c {
        match op.first() {
            Some(1) => {
                modes.borrow_mut().insert(op[1], op[2]);
                client.write([op[1] as u8]);
            }
            Some(3) => {
                let mut bytes = Vec::new();
                for pair in op[1..].chunks(2) {
                    modes.borrow_mut().insert(pair[0], pair[1]);
                    bytes.push(pair[0] as u8);
                }
                client.write(bytes);
            }
            Some(2) => gates.open(op[1], op[2]),
            _ => {}
        }
        settle().await;
        seen.extend_from_slice(&client.read_any());
        obs.push(nums_of(&seen));
    }
    drop(client);
    settle().await;
    drop(handle);
    obs
}
