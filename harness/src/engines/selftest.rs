//! engine "selftest": smoke test of the connection helpers (not used by any property)
use std::cell::RefCell;
use std::rc::Rc;

use ntex::util::Bytes;
use ntex_mqtt::MqttServiceConfig;

use crate::conn;
use crate::rt::{poll_once, settle};
use crate::{Fields, nums_of};

pub async fn run_case(c: &Fields) -> Fields {
    let v = c.first().and_then(|f| f.first()).copied().unwrap_or(3);
    let mut out = Fields::new();
    if v == 3 {
        let slot = Rc::new(RefCell::new(None));
        let peer = conn::v3_server_with_sink(slot.clone(), MqttServiceConfig::new().set_max_send(2)).await;
        let sink = slot.borrow().clone().expect("sink");
        out.push(vec![sink.credit() as u64]);
        let mut fut: std::pin::Pin<Box<dyn Future<Output = _>>> =
            Box::pin(sink.publish("a").send_at_least_once(Bytes::from_static(b"x")));
        out.push(vec![u64::from(poll_once(&mut fut).is_ready())]);
        settle().await;
        out.push(nums_of(&peer.read_any()));
        peer.write(b"\x40\x02\x00\x01");
        settle().await;
        out.push(vec![u64::from(poll_once(&mut fut).is_ready())]);
    } else {
        let slot = Rc::new(RefCell::new(None));
        let peer = conn::v5_server_with_sink(slot.clone(), MqttServiceConfig::new().set_max_send(2)).await;
        let sink = slot.borrow().clone().expect("sink");
        out.push(vec![sink.credit() as u64]);
        let mut fut: std::pin::Pin<Box<dyn Future<Output = _>>> =
            Box::pin(sink.publish("a").send_at_least_once(Bytes::from_static(b"x")));
        out.push(vec![u64::from(poll_once(&mut fut).is_ready())]);
        settle().await;
        out.push(nums_of(&peer.read_any()));
        peer.write(b"\x40\x02\x00\x01");
        settle().await;
        out.push(vec![u64::from(poll_once(&mut fut).is_ready())]);
    }
    out
}
