//! engine "hs" (number 38): the handshake stage of a real server (property C19) -- the combined
//! `ntex_mqtt::MqttServer` (src/server.rs, kind 0) or a plain v3 (kind 3) / v5 (kind 5) server --
//! running over ntex_io::testing::IoTest.  The harness plays the peer (raw bytes, written in
//! pieces) and the application (handshake service held on a gate, publish handler, protocol
//! service).
//!
//! case:
//!   field 0  configuration
//!      0 kind          0 combined, 3 v3 only, 5 v5 only
//!      1 answer        0 accept, 1 refuse (CONNACK with `code`), 2 handshake service error
//!      2 code          refusal code (v3 return code 0..6, else 5; v5 reason code, else 128)
//!      3 max_send      MqttServiceConfig::set_max_send
//!      4 max_qos       set_max_qos (0..2)
//!      5 max_receive   set_max_receive
//!      6 max_topic_alias  set_max_topic_alias
//!      7 max_size      set_max_size
//!      8 ov_max_send   0 not called, 1 `.max_send(None)`, n >= 2 `.max_send(Some(n-2))`
//!      9 ov_keepalive  0 not called, n >= 1: k = n-1; v3 `.idle_timeout(Seconds(k))`,
//!                      v5 `.keep_alive(k)` (k = 0 would be the API's assert: not called)
//!     10 ov_size       v3: n >= 3 `.max_packet_size(n-2)`; v5 (`with`): 1 `max_packet_size = None`,
//!                      n >= 2 `max_packet_size = Some(n-2)`; 0 untouched
//!     11 ov_receive_max   v5 `with`: n >= 1 `receive_max = n`
//!     12 ov_max_qos       v5 `with`: n >= 1 `max_qos = n-1`
//!     13 ov_alias_max     v5 `with`: n >= 1 `topic_alias_max = n-1`
//!     14 ov_server_ka     v5 `with`: n >= 1 `server_keepalive_sec = Some(n-1)`
//!     15 prebuffer        1 = the first piece of the first bytes is in the read buffer before the server is called
//!   field 1  cut positions inside the first bytes (increasing)
//!   field 2  first bytes; written piece by piece, settle() after every piece
//!   fields 3.. operations after the handshake service has answered
//!      1            read sink.credit()
//!      2,b1,b2,..   the peer writes these bytes
//!      6,ms         sleep ms milliseconds (timing replays only)
//!
//! observation:
//!   field 0  after the last piece, handshake service still held:
//!            hs (0 none / 3 / 5), publish handler calls, protocol service calls, closed, rk, ptype
//!   field 1  CONNECT as the handshake service saw it:
//!            v3: 3, keep_alive, clean_session, bytes client_id, opt(bytes username),
//!                opt(bytes password), will?, packet_size
//!            v5: 5, .. same .., session_expiry, opt(receive_max), topic_alias_max, opt(max_packet_size)
//!            (bytes := len, b..; opt(X) := 0 | 1, X)
//!   field 2  bytes the server wrote before the answer, 999, bytes it wrote after the answer
//!   field 3  handler calls, protocol calls, closed, rk, ptype after the answer
//!   one field per operation: op 1: credit (70000 = no sink); op 2 / 6: bytes the server wrote,
//!            999, handler calls, protocol calls, closed, rk, ptype
//!   rk (result of the server future): 0 still running, 1 Ok, 2 MqttError::Service,
//!      3 Handshake(Service), 4 Handshake(Timeout), 5 Handshake(Disconnected(None)),
//!      6 Handshake(Disconnected(Some)), 7 Handshake(Protocol(ProtocolViolation)) with ptype = the
//!      packet type of an unexpected packet, 8 other protocol error,
//!      100 + DecodeError code, 200 + EncodeError code
use std::cell::RefCell;
use std::num::{NonZeroU16, NonZeroU32};
use std::rc::Rc;

use ntex::service::{Pipeline, ServiceFactory, cfg::SharedCfg, fn_service};
use ntex::time::{Millis, Seconds, sleep};
use ntex_io::{Io, IoBoxed, testing::IoTest};
use ntex_mqtt::error::{DecodeError, EncodeError, HandshakeError, MqttError, ProtocolError};
use ntex_mqtt::{MqttServiceConfig, QoS, v3, v5};

use crate::conn::{self, HErr};
use crate::rt::{Gates, settle};
use crate::{Fields, bytes_of, nums_of};

#[derive(Default)]
struct Log {
    hs: u64,
    connect: Vec<u64>,
    handlers: u64,
    protos: u64,
    rk: u64,
    ptype: u64,
    sink3: Option<v3::MqttSink>,
    sink5: Option<v5::MqttSink>,
}

#[derive(Clone)]
struct Cx {
    log: Rc<RefCell<Log>>,
    gate: Gates<u64>,
    cfg: Rc<Vec<u64>>,
}

impl Cx {
    fn arg(&self, i: usize) -> u64 {
        self.cfg.get(i).copied().unwrap_or(0)
    }
}

fn qos_of(n: u64) -> QoS {
    match n {
        0 => QoS::AtMostOnce,
        1 => QoS::AtLeastOnce,
        _ => QoS::ExactlyOnce,
    }
}

fn d_bytes(b: &[u8], out: &mut Vec<u64>) {
    out.push(b.len() as u64);
    out.extend(b.iter().map(|x| u64::from(*x)));
}

fn d_opt(b: Option<&[u8]>, out: &mut Vec<u64>) {
    match b {
        Some(b) => {
            out.push(1);
            d_bytes(b, out);
        }
        None => out.push(0),
    }
}

fn de_code(e: &DecodeError) -> u64 {
    match e {
        DecodeError::InvalidProtocol => 1,
        DecodeError::InvalidLength => 2,
        DecodeError::MalformedPacket => 3,
        DecodeError::UnsupportedProtocolLevel => 4,
        DecodeError::ConnectReservedFlagSet => 5,
        DecodeError::ConnAckReservedFlagSet => 6,
        DecodeError::InvalidClientId => 7,
        DecodeError::UnsupportedPacketType => 8,
        DecodeError::PacketIdRequired => 9,
        DecodeError::MaxSizeExceeded { .. } => 10,
        DecodeError::Utf8Error => 11,
        DecodeError::UnexpectedPayload => 12,
    }
}

fn ee_code(e: &EncodeError) -> u64 {
    match e {
        EncodeError::OverMaxPacketSize => 21,
        EncodeError::OverPublishSize => 22,
        EncodeError::PublishIncomplete => 23,
        EncodeError::InvalidLength => 24,
        EncodeError::MalformedPacket => 25,
        EncodeError::PacketIdRequired => 26,
        EncodeError::UnexpectedPayload => 27,
        EncodeError::ExpectPayload => 28,
        EncodeError::UnsupportedVersion => 29,
    }
}

/// (rk, ptype) of the result of the server future
fn classify(res: &Result<(), MqttError<HErr>>) -> (u64, u64) {
    match res {
        Ok(()) => (1, 0),
        Err(MqttError::Service(_)) => (2, 0),
        Err(MqttError::Handshake(h)) => match h {
            HandshakeError::Service(_) => (3, 0),
            HandshakeError::Timeout => (4, 0),
            HandshakeError::Disconnected(None) => (5, 0),
            HandshakeError::Disconnected(Some(_)) => (6, 0),
            HandshakeError::Protocol(p) => match p {
                ProtocolError::Decode(e) => (100 + de_code(e), 0),
                ProtocolError::Encode(e) => (200 + ee_code(e), 0),
                ProtocolError::ProtocolViolation(v) => {
                    // "...; received packet with type `00110000`"
                    let s = v.to_string();
                    let ptype = s
                        .rsplit_once("type `")
                        .and_then(|(_, t)| u64::from_str_radix(t.trim_end_matches('`'), 2).ok())
                        .unwrap_or(0);
                    (7, ptype)
                }
                _ => (8, 0),
            },
        },
    }
}

async fn start<F>(factory: F, cfg: SharedCfg, log: Rc<RefCell<Log>>, pre: &[u8]) -> IoTest
where
    F: ServiceFactory<IoBoxed, SharedCfg, Response = (), Error = MqttError<HErr>> + 'static,
    F::InitError: std::fmt::Debug,
{
    let (client, server) = IoTest::create();
    client.remote_buffer_cap(1 << 20);
    if !pre.is_empty() {
        // bytes that are already there when the connection is handed to the server (a TLS / proxy stage in
        // front, a busy worker): the io read task runs before the service is called
        client.write(pre);
    }
    let io: IoBoxed = Io::new(server, cfg.clone()).into();
    let svc = Pipeline::new(factory.create(cfg).await.expect("service"));
    if !pre.is_empty() {
        settle().await;
    }
    ntex::rt::spawn(async move {
        let res = svc.call(io).await;
        let (rk, ptype) = classify(&res);
        let mut l = log.borrow_mut();
        l.rk = rk;
        l.ptype = ptype;
    });
    settle().await;
    client
}

macro_rules! v3_server {
    ($cx:expr) => {{
        let cx: Cx = $cx;
        let c1 = cx.clone();
        let c2 = cx.clone();
        let c3 = cx.clone();
        v3::MqttServer::new(move |h: v3::Handshake| {
            let cx = c1.clone();
            async move {
                {
                    let mut l = cx.log.borrow_mut();
                    l.hs = 3;
                    let p = h.packet();
                    let mut o = vec![3, u64::from(p.keep_alive), u64::from(p.clean_session)];
                    d_bytes(p.client_id.as_str().as_bytes(), &mut o);
                    d_opt(p.username.as_ref().map(|s| s.as_str().as_bytes()), &mut o);
                    d_opt(p.password.as_ref().map(|s| { let b: &[u8] = s.as_ref(); b }), &mut o);
                    o.push(u64::from(p.last_will.is_some()));
                    o.push(u64::from(h.packet_size()));
                    l.connect = o;
                    l.sink3 = Some(h.sink());
                }
                cx.gate.wait(1).await;
                match cx.arg(1) {
                    0 => {
                        let mut ack = h.ack((), false);
                        if cx.arg(9) >= 1 {
                            ack = ack.idle_timeout(Seconds((cx.arg(9) - 1) as u16));
                        }
                        match cx.arg(8) {
                            0 => {}
                            1 => ack = ack.max_send(None),
                            n => ack = ack.max_send(Some((n - 2) as u16)),
                        }
                        if cx.arg(10) >= 3 {
                            ack = ack.max_packet_size(
                                NonZeroU32::new((cx.arg(10) - 2) as u32).unwrap(),
                            );
                        }
                        Ok(ack)
                    }
                    1 => Ok(h.failed(
                        v3::codec::ConnectAckReason::try_from(cx.arg(2) as u8)
                            .unwrap_or(v3::codec::ConnectAckReason::NotAuthorized),
                    )),
                    _ => Err(HErr(1)),
                }
            }
        })
        .protocol(fn_service(move |m: v3::ProtocolMessage| {
            c2.log.borrow_mut().protos += 1;
            async move { Ok::<_, HErr>(m.ack()) }
        }))
        .publish(fn_service(move |p: v3::Publish| {
            let n = {
                let mut l = c3.log.borrow_mut();
                l.handlers += 1;
                l.handlers
            };
            let hold = p.publish_topic() == "h";
            let g = c3.gate.clone();
            async move {
                if hold {
                    g.wait(1000 + n).await;
                }
                drop(p);
                Ok::<_, HErr>(())
            }
        }))
    }};
}

macro_rules! v5_server {
    ($cx:expr) => {{
        let cx: Cx = $cx;
        let c1 = cx.clone();
        let c2 = cx.clone();
        let c3 = cx.clone();
        v5::MqttServer::new(move |h: v5::Handshake| {
            let cx = c1.clone();
            async move {
                {
                    let mut l = cx.log.borrow_mut();
                    l.hs = 5;
                    let p = h.packet();
                    let mut o = vec![5, u64::from(p.keep_alive), u64::from(p.clean_start)];
                    d_bytes(p.client_id.as_str().as_bytes(), &mut o);
                    d_opt(p.username.as_ref().map(|s| s.as_str().as_bytes()), &mut o);
                    d_opt(p.password.as_ref().map(|s| { let b: &[u8] = s.as_ref(); b }), &mut o);
                    o.push(u64::from(p.last_will.is_some()));
                    o.push(u64::from(h.packet_size()));
                    o.push(u64::from(p.session_expiry_interval_secs));
                    match p.receive_max {
                        Some(v) => o.extend_from_slice(&[1, u64::from(v.get())]),
                        None => o.push(0),
                    }
                    o.push(u64::from(p.topic_alias_max));
                    match p.max_packet_size {
                        Some(v) => o.extend_from_slice(&[1, u64::from(v.get())]),
                        None => o.push(0),
                    }
                    l.connect = o;
                    l.sink5 = Some(h.sink());
                }
                cx.gate.wait(1).await;
                match cx.arg(1) {
                    0 => {
                        let mut ack = h.ack(());
                        if cx.arg(9) >= 2 {
                            ack = ack.keep_alive((cx.arg(9) - 1) as u16);
                        }
                        match cx.arg(8) {
                            0 => {}
                            1 => ack = ack.max_send(None),
                            n => ack = ack.max_send(Some((n - 2) as u16)),
                        }
                        let (sz, rm, mq, am, ska) =
                            (cx.arg(10), cx.arg(11), cx.arg(12), cx.arg(13), cx.arg(14));
                        ack = ack.with(move |pkt| {
                            match sz {
                                0 => {}
                                1 => pkt.max_packet_size = None,
                                n => pkt.max_packet_size = Some((n - 2) as u32),
                            }
                            if rm >= 1 {
                                pkt.receive_max = NonZeroU16::new(rm as u16).unwrap();
                            }
                            if mq >= 1 {
                                pkt.max_qos = qos_of(mq - 1);
                            }
                            if am >= 1 {
                                pkt.topic_alias_max = (am - 1) as u16;
                            }
                            if ska >= 1 {
                                pkt.server_keepalive_sec = Some((ska - 1) as u16);
                            }
                        });
                        Ok(ack)
                    }
                    1 => Ok(h.failed(
                        v5::codec::ConnectAckReason::try_from(cx.arg(2) as u8)
                            .unwrap_or(v5::codec::ConnectAckReason::UnspecifiedError),
                    )),
                    _ => Err(HErr(1)),
                }
            }
        })
        .protocol(fn_service(move |m: v5::ProtocolMessage| {
            c2.log.borrow_mut().protos += 1;
            async move { Ok::<_, HErr>(m.ack()) }
        }))
        .publish(fn_service(move |p: v5::Publish| {
            let n = {
                let mut l = c3.log.borrow_mut();
                l.handlers += 1;
                l.handlers
            };
            let hold = p.publish_topic() == "h";
            let g = c3.gate.clone();
            async move {
                if hold {
                    g.wait(1000 + n).await;
                }
                Ok::<_, HErr>(p.ack())
            }
        }))
    }};
}

fn state(log: &Rc<RefCell<Log>>, peer: &IoTest, with_hs: bool) -> Vec<u64> {
    let l = log.borrow();
    let closed = u64::from(peer.is_closed() || peer.is_server_dropped());
    let mut o = Vec::new();
    if with_hs {
        o.push(l.hs);
    }
    o.extend_from_slice(&[l.handlers, l.protos, closed, l.rk, l.ptype]);
    o
}

pub async fn run_case(c: &Fields) -> Fields {
    let empty = Vec::new();
    let cfgf = c.first().unwrap_or(&empty);
    let cuts = c.get(1).unwrap_or(&empty);
    let first = bytes_of(c.get(2).unwrap_or(&empty));

    let log: Rc<RefCell<Log>> = Rc::new(RefCell::new(Log::default()));
    let cx = Cx { log: log.clone(), gate: Gates::new(), cfg: Rc::new(cfgf.clone()) };

    let mcfg = MqttServiceConfig::new()
        .set_max_send(cx.arg(3) as u16)
        .set_max_qos(qos_of(cx.arg(4)))
        .set_max_receive(cx.arg(5) as u16)
        .set_max_topic_alias(cx.arg(6) as u16)
        .set_max_size(cx.arg(7) as u32);
    let scfg = conn::shared_cfg("HS", mcfg);

    // configuration field 15 = 1: the first piece is already buffered when the server gets the connection
    let pre_len = if cx.arg(15) == 1 {
        cuts.first().map_or(first.len(), |c| (*c as usize).min(first.len()))
    } else {
        0
    };
    let pre = first[..pre_len].to_vec();
    let peer = match cx.arg(0) {
        3 => start(v3_server!(cx.clone()), scfg, log.clone(), &pre).await,
        5 => start(v5_server!(cx.clone()), scfg, log.clone(), &pre).await,
        _ => {
            let srv = ntex_mqtt::MqttServer::<_, _, HErr, ()>::new()
                .v3(v3_server!(cx.clone()))
                .v5(v5_server!(cx.clone()));
            start(srv, scfg, log.clone(), &pre).await
        }
    };

    // the first bytes, in pieces
    let mut pos = pre_len;
    for cut in cuts.iter().map(|c| *c as usize).chain(std::iter::once(first.len())) {
        let cut = cut.min(first.len());
        if cut > pos {
            peer.write(&first[pos..cut]);
            pos = cut;
        }
        settle().await;
    }

    let mut obs = Fields::new();
    obs.push(state(&log, &peer, true));
    obs.push(log.borrow().connect.clone());
    let mut wrote = nums_of(&peer.read_any());
    wrote.push(999);

    // the application answers
    cx.gate.open(1, 0);
    settle().await;
    wrote.extend(nums_of(&peer.read_any()));
    obs.push(wrote);
    obs.push(state(&log, &peer, false));

    for op in c.iter().skip(3) {
        match op.first() {
            Some(1) => {
                let l = log.borrow();
                let credit = if let Some(s) = &l.sink3 {
                    s.credit() as u64
                } else if let Some(s) = &l.sink5 {
                    s.credit() as u64
                } else {
                    70000
                };
                obs.push(vec![credit]);
            }
            Some(2) | Some(6) => {
                if op[0] == 2 {
                    peer.write(bytes_of(&op[1..]));
                } else {
                    sleep(Millis(op.get(1).copied().unwrap_or(0) as u32)).await;
                }
                settle().await;
                let mut o = nums_of(&peer.read_any());
                o.push(999);
                o.extend(state(&log, &peer, false));
                obs.push(o);
            }
            _ => obs.push(vec![97]),
        }
    }

    // end of case: the sinks go first (they keep the shared state alive), then the peer
    {
        let mut l = log.borrow_mut();
        l.sink3 = None;
        l.sink5 = None;
    }
    drop(peer);
    settle().await;
    obs
}

/// all cases of the input on single-threaded ntex runtimes; a panic escaping into the runtime ends
/// the case with `9999` and the remaining cases run on a fresh runtime
pub fn run_lines(lines: Vec<String>) -> Vec<String> {
    use std::panic::{AssertUnwindSafe, catch_unwind};
    let lines: Vec<String> = lines.into_iter().filter(|l| !l.starts_with('#')).collect();
    let results: Rc<RefCell<Vec<String>>> = Rc::new(RefCell::new(Vec::new()));
    while results.borrow().len() < lines.len() {
        let start = results.borrow().len();
        let rest: Vec<String> = lines[start..].to_vec();
        let r2 = results.clone();
        let res = catch_unwind(AssertUnwindSafe(|| {
            crate::rt::block_on(async move {
                for line in rest {
                    let case = crate::parse_line(&line);
                    let obs = run_case(&case).await;
                    r2.borrow_mut().push(crate::show_line(&obs));
                }
            });
        }));
        if res.is_err() {
            results.borrow_mut().push("9999".to_string());
        }
    }
    let out = results.borrow().clone();
    out
}
