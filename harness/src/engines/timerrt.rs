//! engine "timerrt" (number 37): REAL-TIME runs of the scenarios of engine "iostate" (keep-alive and
//! frame-read-rate timers of io::Dispatcher fired by the real ntex-io timer wheel and the real clock).
//!
//! case: the iostate configuration, with the horizon H (seconds) at index 7, then operations
//!   second, op...      the iostate operation `op...` is applied `second` seconds after the start
//! observation: one field per second n = 0..H-1, sampled 0.75 s after the operations of that second:
//!   finished, handlers pending, number of control messages, their codes, bytes received by the peer
//!
//! With cfg[8] = kind != 0 the scenario runs a REAL MQTT endpoint instead of the bare dispatcher:
//!   kind 3 / 5    v3 / v5 MqttServer (connect timeout cfg[9] s, frame-read-rate cfg[4..7]); the harness is
//!                 the client: ops 20 CONNECT (keep-alive cfg[0]), 21 PINGREQ, 22 byte C0, 23 byte 00,
//!                 24 first five bytes of CONNECT, 25 the rest of CONNECT, 26 byte 0x82 (first byte of a
//!                 SUBSCRIBE), 27 byte 0x05 (its remaining length: the header is complete), 3 close
//!   kind 13 / 15  v3 / v5 client with keep-alive cfg[0] s; the harness is the broker: ops 30 CONNACK, 3 close,
//!                 33 CONNACK with Receive Maximum 1 (v3: plain CONNACK, the client is configured with max_send 1), 31 the client application publishes one QoS 1
//!                 message (once per scenario), 32 the broker writes PUBACK(1), 341..343 CONNACK carrying Server
//!                 Keep Alive 1..3 (v3: plain CONNACK)
//!   observation per second: closed (0/1), then for every packet received so far its first byte
//!   (32 CONNACK, 208 PINGRESP, 16 CONNECT, 192 PINGREQ, 224 DISCONNECT followed by its reason code)
//!
//! All scenarios of the input run CONCURRENTLY on one runtime.  The ntex-io timer wheel ticks once a
//! second from the moment its first timer is registered; a dummy connection registers a long timer
//! first and keeps the wheel running, the scenarios start 0.5 s later: a timer armed by an operation
//! of second n for d seconds is then found due 0.5 s after the operations of second n + d.
use std::cell::RefCell;
use std::rc::Rc;
use std::time::{Duration, Instant};

use ntex::service::cfg::SharedCfg;
use ntex_io::{Io, testing::IoTest};
use ntex_util::time::{Millis, Seconds, sleep};

use super::iostate::Scn;
use crate::Fields;
use crate::rt::settle;

async fn sleep_until(t: Instant) {
    let now = Instant::now();
    if t > now {
        sleep(Millis((t - now).as_millis() as u32)).await;
    }
}

/// first byte of every complete packet in `b`; a DISCONNECT is followed by its reason code
fn packet_codes(b: &[u8]) -> Vec<u64> {
    let mut out = Vec::new();
    let mut i = 0;
    while i < b.len() {
        let first = b[i];
        let (mut len, mut mul, mut j) = (0usize, 1usize, i + 1);
        loop {
            if j >= b.len() {
                return out;
            }
            len += (b[j] as usize & 0x7f) * mul;
            mul *= 128;
            j += 1;
            if b[j - 1] & 0x80 == 0 {
                break;
            }
        }
        if j + len > b.len() {
            return out;
        }
        out.push(u64::from(first));
        if first == 0xE0 {
            // v5: reason code is the first body byte (absent = 0); v3: no body
            out.push(if len > 0 { u64::from(b[j]) } else { 0 });
        }
        i = j + len;
    }
    out
}

fn connect_bytes(v5: bool, ka: u64) -> Vec<u8> {
    let mut v = if v5 {
        b"\x10\x0e\x00\x04MQTT\x05\x02\x00\x00\x00\x00\x01c".to_vec()
    } else {
        b"\x10\x0d\x00\x04MQTT\x04\x02\x00\x00\x00\x01c".to_vec()
    };
    v[10] = (ka >> 8) as u8;
    v[11] = ka as u8;
    v
}

async fn run_mqtt_case(c: Fields, start: Instant) -> Fields {
    use ntex::service::{Pipeline, ServiceFactory, fn_service};
    use ntex_mqtt::{MqttServiceConfig, v3, v5};

    let cfg = c.first().cloned().unwrap_or_default();
    let g = |i: usize| cfg.get(i).copied().unwrap_or(0);
    let (ka, horizon, kind, ct) = (g(0), g(7), g(8), g(9));
    let v5k = kind == 5 || kind == 15;
    sleep_until(start).await;

    let mut iocfg = ntex_io::IoConfig::new();
    if g(4) != 0 {
        iocfg = iocfg.set_frame_read_rate(Seconds(g(4) as u16), Seconds(g(5) as u16), g(6) as u32);
    }
    let mut mcfg = MqttServiceConfig::new().set_connect_timeout(Seconds(ct as u16));
    if kind == 13 && c.iter().skip(1).any(|op| op.get(1) == Some(&33)) {
        // op 33 = "the broker allows one unacknowledged message": an MQTT 5 broker says so in CONNACK, for an
        // MQTT 3.1.1 client the application configures its send window
        mcfg = mcfg.set_max_send(1);
    }
    let shared: SharedCfg = SharedCfg::new("RT").add(mcfg).add(iocfg).into();

    let panicked = Rc::new(std::cell::Cell::new(false));
    let pubgate0: crate::rt::Gates<u64> = crate::rt::Gates::new();
    // like conn::start_server, with the server task's panics contained (observation 9999)
    macro_rules! server {
        ($srv:expr) => {{
            let (client, server) = IoTest::create();
            client.remote_buffer_cap(1 << 20);
            let io: ntex_io::IoBoxed = Io::new(server, shared.clone()).into();
            let svc = Pipeline::new(
                ServiceFactory::<ntex_io::IoBoxed, SharedCfg>::create(&$srv, shared.clone())
                    .await
                    .expect("service"),
            );
            let p2 = panicked.clone();
            ntex::rt::spawn(async move {
                if super::iostate::CatchPanic(Box::pin(svc.call(io))).await.is_none() {
                    p2.set(true);
                }
            });
            settle().await;
            client
        }};
    }
    let peer: IoTest = if kind == 3 {
        let srv = v3::MqttServer::new(|h: v3::Handshake| async move { Ok::<_, ()>(h.ack((), false)) })
            .publish(|_p: v3::Publish| async { Ok::<_, ()>(()) });
        server!(srv)
    } else if kind == 5 {
        let srv = v5::MqttServer::new(|h: v5::Handshake| async move { Ok::<_, crate::conn::HErr>(h.ack(())) })
            .publish(|p: v5::Publish| async move { Ok::<_, crate::conn::HErr>(p.ack()) });
        server!(srv)
    } else {
        // client: the harness is the broker on `peer`
        let (peer, end) = IoTest::create();
        peer.remote_buffer_cap(1 << 20);
        let end = RefCell::new(Some(end));
        let cfg2 = shared.clone();
        let pubgate = pubgate0.clone();
        macro_rules! client {
            ($v:ident) => {{
                let connector = $v::client::MqttConnector::<String, _>::new().connector(fn_service(
                    move |_: ntex::connect::Connect<String>| {
                        let io = end.borrow_mut().take().map(|e| Io::new(e, cfg2.clone()));
                        async move { io.ok_or(ntex::connect::ConnectError::Unresolved) }
                    },
                ));
                let shared = shared.clone();
                ntex::rt::spawn(async move {
                    let svc = Pipeline::new(connector.create(shared).await.expect("connector"));
                    let connect = $v::client::Connect::new("broker".to_string())
                        .client_id("c")
                        .keep_alive(Seconds(ka as u16));
                    if let Ok(client) = svc.call(connect).await {
                        let sink = client.sink();
                        let gate = pubgate.clone();
                        ntex::rt::spawn(async move {
                            // op 31: the application publishes one QoS 1 message (the result is not awaited for)
                            gate.wait(1).await;
                            let _ = sink
                                .publish(ntex::util::ByteString::from_static("a"))
                                .send_at_least_once(ntex::util::Bytes::from_static(b"x"))
                                .await;
                        });
                        client.start_default().await;
                    }
                });
            }};
        }
        if v5k {
            client!(v5)
        } else {
            client!(v3)
        }
        settle().await;
        peer
    };
    let reader = peer.clone();
    let mut peer = Some(peer);
    let mut seen: Vec<u8> = Vec::new();
    let mut obs = Fields::new();
    for n in 0..horizon {
        sleep_until(start + Duration::from_millis(n * 1000)).await;
        for op in c.iter().skip(1) {
            if op.first() != Some(&n) {
                continue;
            }
            let bytes: Option<Vec<u8>> = match op.get(1) {
                Some(20) => Some(connect_bytes(v5k, ka)),
                Some(21) => Some(vec![0xC0, 0x00]),
                Some(22) => Some(vec![0xC0]),
                Some(23) => Some(vec![0x00]),
                Some(24) => Some(connect_bytes(v5k, ka)[..5].to_vec()),
                Some(25) => Some(connect_bytes(v5k, ka)[5..].to_vec()),
                Some(26) => Some(vec![0x82]),
                Some(27) => Some(vec![0x05]),
                Some(30) => Some(if v5k { vec![0x20, 3, 0, 0, 0] } else { vec![0x20, 2, 0, 0] }),
                // CONNACK announcing Receive Maximum 1 (v3: plain CONNACK)
                Some(33) => Some(if v5k { vec![0x20, 6, 0, 0, 3, 0x21, 0, 1] } else { vec![0x20, 2, 0, 0] }),
                // CONNACK carrying Server Keep Alive k = 1..3 (v3: plain CONNACK)
                Some(&k @ 341..=343) => Some(if v5k {
                    vec![0x20, 6, 0, 0, 3, 0x13, 0, (k - 340) as u8]
                } else {
                    vec![0x20, 2, 0, 0]
                }),
                // the client application publishes one QoS 1 message
                Some(31) => {
                    pubgate0.open(1, 0);
                    None
                }
                // the broker acknowledges it
                Some(32) => Some(vec![0x40, 2, 0, 1]),
                Some(3) => {
                    drop(peer.take());
                    None
                }
                _ => None,
            };
            if let (Some(b), Some(p)) = (bytes, &peer) {
                p.write(b);
            }
            settle().await;
        }
        sleep_until(start + Duration::from_millis(n * 1000 + 750)).await;
        seen.extend_from_slice(&reader.read_any());
        let closed = reader.is_closed() || reader.is_server_dropped();
        let mut f = vec![u64::from(closed)];
        f.extend(packet_codes(&seen));
        obs.push(f);
    }
    drop(peer);
    settle().await;
    if panicked.get() { vec![vec![9999]] } else { obs }
}

async fn run_case(c: Fields, start: Instant) -> Fields {
    let cfg = c.first().cloned().unwrap_or_default();
    if cfg.get(8).copied().unwrap_or(0) != 0 {
        return run_mqtt_case(c, start).await;
    }
    let horizon = cfg.get(7).copied().unwrap_or(0);
    sleep_until(start).await;
    let mut scn = Scn::start(&cfg).await;
    let mut obs = Fields::new();
    for n in 0..horizon {
        sleep_until(start + Duration::from_millis(n * 1000)).await;
        for op in c.iter().skip(1) {
            if op.first() == Some(&n) {
                scn.apply(&op[1..]);
                settle().await;
            }
        }
        sleep_until(start + Duration::from_millis(n * 1000 + 750)).await;
        obs.push(scn.observe(false));
    }
    let panicked = scn.panicked();
    scn.finish().await;
    if panicked { vec![vec![9999]] } else { obs }
}

pub fn run_lines(lines: Vec<String>) -> Vec<String> {
    use std::panic::{AssertUnwindSafe, catch_unwind};
    let lines: Vec<String> = lines.into_iter().filter(|l| !l.starts_with('#')).collect();
    let n = lines.len();
    let results: Rc<RefCell<Vec<Option<String>>>> = Rc::new(RefCell::new(vec![None; n]));
    let r2 = results.clone();
    let res = catch_unwind(AssertUnwindSafe(|| {
        crate::rt::block_on(async move {
            // keep the timer wheel of ntex-io running with a fixed phase
            let (_dc, ds) = IoTest::create();
            let dummy = Io::new(ds, SharedCfg::new("WHEEL"));
            let _h = dummy.start_timer(Seconds(600));
            let start = Instant::now() + Duration::from_millis(500);
            let mut handles = Vec::new();
            for (i, line) in lines.iter().enumerate() {
                let case = crate::parse_line(line);
                let r3 = r2.clone();
                handles.push(ntex::rt::spawn(async move {
                    // a panic of the dispatcher task of this scenario is contained in its own task by
                    // the runtime; the scenario then reports what it saw
                    let obs = run_case(case, start).await;
                    r3.borrow_mut()[i] = Some(crate::show_line(&obs));
                }));
            }
            for h in handles {
                let _ = h.await;
            }
            drop(dummy);
        });
    }));
    let _ = res;
    let out: Vec<String> =
        results.borrow().iter().map(|r| r.clone().unwrap_or_else(|| "9999".to_string())).collect();
    out
}
