//! engine "timerrt" (number 37): REAL-TIME runs of the scenarios of engine "iostate" (keep-alive and
//! frame-read-rate timers of io::Dispatcher fired by the real ntex-io timer wheel and the real clock).
//!
//! case: the iostate configuration, with the horizon H (seconds) at index 7, then operations
//!   second, op...      the iostate operation `op...` is applied `second` seconds after the start
//! observation: one field per second n = 0..H-1, sampled 0.75 s after the operations of that second:
//!   finished, handlers pending, number of control messages, their codes, bytes received by the peer
//!
//! All scenarios of the input run CONCURRENTLY on one runtime.  The ntex-io timer wheel ticks once a
//! second from the moment its first timer is registered; a dummy connection registers a long timer
//! first and keeps the wheel running, the scenarios start 0.5 s later: a timer armed by an operation
//! of second n for d seconds is then found due 0.5 s after the operations of second n + d.
use std::cell::RefCell;
use std::rc::Rc;
use std::time::{Duration, Instant};

use ntex::service::cfg::SharedCfg;
use ntex_io::{Io, testing::IoTest};
use ntex_util::time::{Millis, Seconds, sleep};

use super::iostate::Scn;
use crate::Fields;
use crate::rt::settle;

async fn sleep_until(t: Instant) {
    let now = Instant::now();
    if t > now {
        sleep(Millis((t - now).as_millis() as u32)).await;
    }
}

async fn run_case(c: Fields, start: Instant) -> Fields {
    let cfg = c.first().cloned().unwrap_or_default();
    let horizon = cfg.get(7).copied().unwrap_or(0);
    sleep_until(start).await;
    let mut scn = Scn::start(&cfg).await;
    let mut obs = Fields::new();
    for n in 0..horizon {
        sleep_until(start + Duration::from_millis(n * 1000)).await;
        for op in c.iter().skip(1) {
            if op.first() == Some(&n) {
                scn.apply(&op[1..]);
                settle().await;
            }
        }
        sleep_until(start + Duration::from_millis(n * 1000 + 750)).await;
        obs.push(scn.observe(false));
    }
    let panicked = scn.panicked();
    scn.finish().await;
    if panicked { vec![vec![9999]] } else { obs }
}

pub fn run_lines(lines: Vec<String>) -> Vec<String> {
    use std::panic::{AssertUnwindSafe, catch_unwind};
    let lines: Vec<String> = lines.into_iter().filter(|l| !l.starts_with('#')).collect();
    let n = lines.len();
    let results: Rc<RefCell<Vec<Option<String>>>> = Rc::new(RefCell::new(vec![None; n]));
    let r2 = results.clone();
    let res = catch_unwind(AssertUnwindSafe(|| {
        crate::rt::block_on(async move {
            // keep the timer wheel of ntex-io running with a fixed phase
            let (_dc, ds) = IoTest::create();
            let dummy = Io::new(ds, SharedCfg::new("WHEEL"));
            let _h = dummy.start_timer(Seconds(600));
            let start = Instant::now() + Duration::from_millis(500);
            let mut handles = Vec::new();
            for (i, line) in lines.iter().enumerate() {
                let case = crate::parse_line(line);
                let r3 = r2.clone();
                handles.push(ntex::rt::spawn(async move {
                    // a panic of the dispatcher task of this scenario is contained in its own task by
                    // the runtime; the scenario then reports what it saw
                    let obs = run_case(case, start).await;
                    r3.borrow_mut()[i] = Some(crate::show_line(&obs));
                }));
            }
            for h in handles {
                let _ = h.await;
            }
            drop(dummy);
        });
    }));
    let _ = res;
    let out: Vec<String> =
        results.borrow().iter().map(|r| r.clone().unwrap_or_else(|| "9999".to_string())).collect();
    out
}
