//! engines for the MQTT v5 codec: "dec5" (stream decoder), "enc5" (encoder), "sniff" (version sniffing).
//! Case / observation formats and the numeric packet dump grammar: coq/Model/EnginesV5.v.
use std::num::{NonZeroU16, NonZeroU32};
use std::panic::{AssertUnwindSafe, catch_unwind};

use ntex_bytes::{BytePages, ByteString, Bytes, BytesMut};
use ntex_codec::{Decoder, Encoder};
use ntex_mqtt::error::{DecodeError, EncodeError};
use ntex_mqtt::v5::codec::{
    Auth, AuthReasonCode, Codec, Connect, ConnectAck, ConnectAckReason, Decoded, Disconnect,
    DisconnectReasonCode, Encoded, LastWill, Packet, Publish, PublishAck, PublishAck2,
    PublishAck2Reason, PublishAckReason, PublishProperties, QoS, RetainHandling, Subscribe,
    SubscribeAck, SubscribeAckReason, SubscriptionOptions, Unsubscribe, UnsubscribeAck,
    UnsubscribeAckReason, UserProperties,
};

use super::Engine;
use crate::{Fields, bytes_of};

pub fn lookup(name: &str) -> Option<Engine> {
    match name {
        "dec5" => Some(dec5),
        "sized5" => Some(sized5),
        "enc5" => Some(enc5),
        "sniff" => Some(sniff),
        _ => None,
    }
}

fn de_code(e: &DecodeError) -> u64 {
    match e {
        DecodeError::InvalidProtocol => 1,
        DecodeError::InvalidLength => 2,
        DecodeError::MalformedPacket => 3,
        DecodeError::UnsupportedProtocolLevel => 4,
        DecodeError::ConnectReservedFlagSet => 5,
        DecodeError::ConnAckReservedFlagSet => 6,
        DecodeError::InvalidClientId => 7,
        DecodeError::UnsupportedPacketType => 8,
        DecodeError::PacketIdRequired => 9,
        DecodeError::MaxSizeExceeded { .. } => 10,
        DecodeError::Utf8Error => 11,
        DecodeError::UnexpectedPayload => 12,
    }
}

fn ee_code(e: EncodeError) -> u64 {
    match e {
        EncodeError::OverMaxPacketSize => 21,
        EncodeError::OverPublishSize => 22,
        EncodeError::PublishIncomplete => 23,
        EncodeError::InvalidLength => 24,
        EncodeError::MalformedPacket => 25,
        EncodeError::PacketIdRequired => 26,
        EncodeError::UnexpectedPayload => 27,
        EncodeError::ExpectPayload => 28,
        EncodeError::UnsupportedVersion => 29,
    }
}

// ---------------------------------------------------------------- dump
struct D(Vec<u64>);

impl D {
    fn num(&mut self, n: u64) {
        self.0.push(n);
    }
    fn bool(&mut self, b: bool) {
        self.0.push(u64::from(b));
    }
    fn bytes(&mut self, b: &[u8]) {
        self.0.push(b.len() as u64);
        self.0.extend(b.iter().map(|x| u64::from(*x)));
    }
    fn ostr(&mut self, s: &Option<ByteString>) {
        match s {
            Some(s) => {
                self.0.push(1);
                self.bytes(s.as_bytes());
            }
            None => self.0.push(0),
        }
    }
    fn obytes(&mut self, s: &Option<Bytes>) {
        match s {
            Some(s) => {
                self.0.push(1);
                self.bytes(s.as_ref());
            }
            None => self.0.push(0),
        }
    }
    fn onum(&mut self, n: Option<u64>) {
        match n {
            Some(n) => {
                self.0.push(1);
                self.0.push(n);
            }
            None => self.0.push(0),
        }
    }
    fn uprops(&mut self, u: &UserProperties) {
        self.0.push(u.len() as u64);
        for (k, v) in u {
            self.bytes(k.as_bytes());
            self.bytes(v.as_bytes());
        }
    }
    fn ack(&mut self, id: NonZeroU16, rc: u8, props: &UserProperties, rs: &Option<ByteString>) {
        self.num(u64::from(id.get()));
        self.num(u64::from(rc));
        self.uprops(props);
        self.ostr(rs);
    }

    fn publish(&mut self, p: &Publish) {
        self.bool(p.dup);
        self.bool(p.retain);
        self.num(u64::from(u8::from(p.qos)));
        self.onum(p.packet_id.map(|v| u64::from(v.get())));
        self.bytes(p.topic.as_bytes());
        self.num(u64::from(p.payload_size));
        let pp = &p.properties;
        self.onum(pp.topic_alias.map(|v| u64::from(v.get())));
        self.obytes(&pp.correlation_data);
        self.onum(pp.message_expiry_interval.map(|v| u64::from(v.get())));
        self.ostr(&pp.content_type);
        self.uprops(&pp.user_properties);
        self.bool(pp.is_utf8_payload);
        self.ostr(&pp.response_topic);
        self.num(pp.subscription_ids.len() as u64);
        for id in &pp.subscription_ids {
            self.num(u64::from(id.get()));
        }
    }

    fn will(&mut self, w: &LastWill) {
        self.num(u64::from(u8::from(w.qos)));
        self.bool(w.retain);
        self.bytes(w.topic.as_bytes());
        self.bytes(w.message.as_ref());
        self.onum(w.will_delay_interval_sec.map(u64::from));
        self.obytes(&w.correlation_data);
        self.onum(w.message_expiry_interval.map(|v| u64::from(v.get())));
        self.ostr(&w.content_type);
        self.uprops(&w.user_properties);
        self.onum(w.is_utf8_payload.map(u64::from));
        self.ostr(&w.response_topic);
    }

    fn connect(&mut self, c: &Connect) {
        self.bool(c.clean_start);
        self.num(u64::from(c.keep_alive));
        self.num(u64::from(c.session_expiry_interval_secs));
        self.ostr(&c.auth_method);
        self.obytes(&c.auth_data);
        self.bool(c.request_problem_info);
        self.bool(c.request_response_info);
        self.onum(c.receive_max.map(|v| u64::from(v.get())));
        self.num(u64::from(c.topic_alias_max));
        self.uprops(&c.user_properties);
        self.onum(c.max_packet_size.map(|v| u64::from(v.get())));
        match &c.last_will {
            Some(w) => {
                self.num(1);
                self.will(w);
            }
            None => self.num(0),
        }
        self.bytes(c.client_id.as_bytes());
        self.ostr(&c.username);
        self.obytes(&c.password);
    }

    fn connack(&mut self, a: &ConnectAck) {
        self.bool(a.session_present);
        self.num(u64::from(u8::from(a.reason_code)));
        self.onum(a.session_expiry_interval_secs.map(u64::from));
        self.num(u64::from(a.receive_max.get()));
        self.num(u64::from(u8::from(a.max_qos)));
        self.onum(a.max_packet_size.map(u64::from));
        self.ostr(&a.assigned_client_id);
        self.num(u64::from(a.topic_alias_max));
        self.bool(a.retain_available);
        self.bool(a.wildcard_subscription_available);
        self.bool(a.subscription_identifiers_available);
        self.bool(a.shared_subscription_available);
        self.onum(a.server_keepalive_sec.map(u64::from));
        self.ostr(&a.response_info);
        self.ostr(&a.server_reference);
        self.ostr(&a.auth_method);
        self.obytes(&a.auth_data);
        self.ostr(&a.reason_string);
        self.uprops(&a.user_properties);
    }

    fn packet(&mut self, p: &Packet) {
        match p {
            Packet::Connect(c) => {
                self.num(1);
                self.connect(c);
            }
            Packet::ConnectAck(a) => {
                self.num(2);
                self.connack(a);
            }
            Packet::PublishAck(a) => {
                self.num(4);
                self.ack(a.packet_id, a.reason_code.into(), &a.properties, &a.reason_string);
            }
            Packet::PublishReceived(a) => {
                self.num(5);
                self.ack(a.packet_id, a.reason_code.into(), &a.properties, &a.reason_string);
            }
            Packet::PublishRelease(a) => {
                self.num(6);
                self.ack(a.packet_id, a.reason_code.into(), &a.properties, &a.reason_string);
            }
            Packet::PublishComplete(a) => {
                self.num(7);
                self.ack(a.packet_id, a.reason_code.into(), &a.properties, &a.reason_string);
            }
            Packet::Subscribe(s) => {
                self.num(8);
                self.num(u64::from(s.packet_id.get()));
                self.onum(s.id.map(|v| u64::from(v.get())));
                self.uprops(&s.user_properties);
                self.num(s.topic_filters.len() as u64);
                for (f, o) in &s.topic_filters {
                    self.bytes(f.as_bytes());
                    self.num(u64::from(u8::from(o.qos)));
                    self.bool(o.no_local);
                    self.bool(o.retain_as_published);
                    self.num(u64::from(u8::from(o.retain_handling)));
                }
            }
            Packet::SubscribeAck(a) => {
                self.num(9);
                self.num(u64::from(a.packet_id.get()));
                self.uprops(&a.properties);
                self.ostr(&a.reason_string);
                self.num(a.status.len() as u64);
                for s in &a.status {
                    self.num(u64::from(u8::from(*s)));
                }
            }
            Packet::Unsubscribe(u) => {
                self.num(10);
                self.num(u64::from(u.packet_id.get()));
                self.uprops(&u.user_properties);
                self.num(u.topic_filters.len() as u64);
                for f in &u.topic_filters {
                    self.bytes(f.as_bytes());
                }
            }
            Packet::UnsubscribeAck(a) => {
                self.num(11);
                self.num(u64::from(a.packet_id.get()));
                self.uprops(&a.properties);
                self.ostr(&a.reason_string);
                self.num(a.status.len() as u64);
                for s in &a.status {
                    self.num(u64::from(u8::from(*s)));
                }
            }
            Packet::PingRequest => self.num(12),
            Packet::PingResponse => self.num(13),
            Packet::Disconnect(d) => {
                self.num(14);
                self.num(u64::from(u8::from(d.reason_code)));
                self.onum(d.session_expiry_interval_secs.map(u64::from));
                self.ostr(&d.server_reference);
                self.ostr(&d.reason_string);
                self.uprops(&d.user_properties);
            }
            Packet::Auth(a) => {
                self.num(15);
                self.num(u64::from(u8::from(a.reason_code)));
                self.ostr(&a.auth_method);
                self.obytes(&a.auth_data);
                self.ostr(&a.reason_string);
                self.uprops(&a.user_properties);
            }
        }
    }
}

// ---------------------------------------------------------------- parse (None = undecodable dump)
struct R<'a> {
    f: &'a [u64],
    pos: usize,
}

impl R<'_> {
    fn num(&mut self) -> Option<u64> {
        let v = *self.f.get(self.pos)?;
        self.pos += 1;
        Some(v)
    }
    fn num_max(&mut self, min: u64, max: u64) -> Option<u64> {
        let v = self.num()?;
        if v < min || v > max { None } else { Some(v) }
    }
    fn bool(&mut self) -> Option<bool> {
        Some(self.num_max(0, 1)? == 1)
    }
    fn u16(&mut self) -> Option<u16> {
        Some(self.num_max(0, 65535)? as u16)
    }
    fn nz16(&mut self) -> Option<NonZeroU16> {
        NonZeroU16::new(self.num_max(1, 65535)? as u16)
    }
    fn u32(&mut self) -> Option<u32> {
        Some(self.num_max(0, u64::from(u32::MAX))? as u32)
    }
    fn nz32(&mut self) -> Option<NonZeroU32> {
        NonZeroU32::new(self.num_max(1, u64::from(u32::MAX))? as u32)
    }
    fn rest(&mut self) -> Option<Vec<u8>> {
        let r = &self.f[self.pos..];
        self.pos = self.f.len();
        if r.iter().any(|b| *b > 255) {
            return None;
        }
        Some(r.iter().map(|b| *b as u8).collect())
    }
    fn at_end(&self) -> bool {
        self.pos == self.f.len()
    }
    fn bytes(&mut self) -> Option<Bytes> {
        let n = self.num()?;
        if ((self.f.len() - self.pos) as u64) < n {
            return None;
        }
        let n = n as usize;
        let r = &self.f[self.pos..self.pos + n];
        self.pos += n;
        if r.iter().any(|b| *b > 255) {
            return None;
        }
        Some(Bytes::from(r.iter().map(|b| *b as u8).collect::<Vec<u8>>()))
    }
    fn str(&mut self) -> Option<ByteString> {
        ByteString::try_from(self.bytes()?).ok()
    }
    fn opt<T>(&mut self, f: impl FnOnce(&mut Self) -> Option<T>) -> Option<Option<T>> {
        match self.num()? {
            0 => Some(None),
            1 => Some(Some(f(self)?)),
            _ => None,
        }
    }
    fn list<T>(&mut self, mut f: impl FnMut(&mut Self) -> Option<T>) -> Option<Vec<T>> {
        let n = self.num()?;
        let mut out = Vec::new();
        for _ in 0..n {
            if self.at_end() {
                return None;
            }
            out.push(f(self)?);
        }
        Some(out)
    }
    fn uprops(&mut self) -> Option<UserProperties> {
        self.list(|r| {
            let k = r.str()?;
            let v = r.str()?;
            Some((k, v))
        })
    }
    fn qos(&mut self) -> Option<QoS> {
        QoS::try_from(self.num_max(0, 255)? as u8).ok()
    }

    fn publish(&mut self) -> Option<Publish> {
        let dup = self.bool()?;
        let retain = self.bool()?;
        let qos = self.qos()?;
        let packet_id = self.opt(Self::nz16)?;
        let topic = self.str()?;
        let payload_size = self.u32()?;
        let properties = PublishProperties {
            topic_alias: self.opt(Self::nz16)?,
            correlation_data: self.opt(Self::bytes)?,
            message_expiry_interval: self.opt(Self::nz32)?,
            content_type: self.opt(Self::str)?,
            user_properties: self.uprops()?,
            is_utf8_payload: self.bool()?,
            response_topic: self.opt(Self::str)?,
            subscription_ids: self.list(Self::nz32)?,
        };
        Some(Publish { dup, retain, qos, packet_id, topic, payload_size, properties })
    }

    fn will(&mut self) -> Option<LastWill> {
        Some(LastWill {
            qos: self.qos()?,
            retain: self.bool()?,
            topic: self.str()?,
            message: self.bytes()?,
            will_delay_interval_sec: self.opt(Self::u32)?,
            correlation_data: self.opt(Self::bytes)?,
            message_expiry_interval: self.opt(Self::nz32)?,
            content_type: self.opt(Self::str)?,
            user_properties: self.uprops()?,
            is_utf8_payload: self.opt(Self::bool)?,
            response_topic: self.opt(Self::str)?,
        })
    }

    fn connect(&mut self) -> Option<Connect> {
        Some(Connect {
            clean_start: self.bool()?,
            keep_alive: self.u16()?,
            session_expiry_interval_secs: self.u32()?,
            auth_method: self.opt(Self::str)?,
            auth_data: self.opt(Self::bytes)?,
            request_problem_info: self.bool()?,
            request_response_info: self.bool()?,
            receive_max: self.opt(Self::nz16)?,
            topic_alias_max: self.u16()?,
            user_properties: self.uprops()?,
            max_packet_size: self.opt(Self::nz32)?,
            last_will: self.opt(Self::will)?,
            client_id: self.str()?,
            username: self.opt(Self::str)?,
            password: self.opt(Self::bytes)?,
        })
    }

    fn connack(&mut self) -> Option<ConnectAck> {
        Some(ConnectAck {
            session_present: self.bool()?,
            reason_code: ConnectAckReason::try_from(self.num_max(0, 255)? as u8).ok()?,
            session_expiry_interval_secs: self.opt(Self::u32)?,
            receive_max: self.nz16()?,
            max_qos: self.qos()?,
            max_packet_size: self.opt(Self::u32)?,
            assigned_client_id: self.opt(Self::str)?,
            topic_alias_max: self.u16()?,
            retain_available: self.bool()?,
            wildcard_subscription_available: self.bool()?,
            subscription_identifiers_available: self.bool()?,
            shared_subscription_available: self.bool()?,
            server_keepalive_sec: self.opt(Self::u16)?,
            response_info: self.opt(Self::str)?,
            server_reference: self.opt(Self::str)?,
            auth_method: self.opt(Self::str)?,
            auth_data: self.opt(Self::bytes)?,
            reason_string: self.opt(Self::str)?,
            user_properties: self.uprops()?,
        })
    }

    fn ack(&mut self) -> Option<PublishAck> {
        Some(PublishAck {
            packet_id: self.nz16()?,
            reason_code: PublishAckReason::try_from(self.num_max(0, 255)? as u8).ok()?,
            properties: self.uprops()?,
            reason_string: self.opt(Self::str)?,
        })
    }

    fn ack2(&mut self) -> Option<PublishAck2> {
        Some(PublishAck2 {
            packet_id: self.nz16()?,
            reason_code: PublishAck2Reason::try_from(self.num_max(0, 255)? as u8).ok()?,
            properties: self.uprops()?,
            reason_string: self.opt(Self::str)?,
        })
    }

    fn packet(&mut self) -> Option<Packet> {
        Some(match self.num()? {
            1 => Packet::Connect(Box::new(self.connect()?)),
            2 => Packet::ConnectAck(Box::new(self.connack()?)),
            4 => Packet::PublishAck(self.ack()?),
            5 => Packet::PublishReceived(self.ack()?),
            6 => Packet::PublishRelease(self.ack2()?),
            7 => Packet::PublishComplete(self.ack2()?),
            8 => Packet::Subscribe(Subscribe {
                packet_id: self.nz16()?,
                id: self.opt(Self::nz32)?,
                user_properties: self.uprops()?,
                topic_filters: self.list(|r| {
                    let f = r.str()?;
                    let o = SubscriptionOptions {
                        qos: r.qos()?,
                        no_local: r.bool()?,
                        retain_as_published: r.bool()?,
                        retain_handling: RetainHandling::try_from(r.num_max(0, 255)? as u8)
                            .ok()?,
                    };
                    Some((f, o))
                })?,
            }),
            9 => Packet::SubscribeAck(SubscribeAck {
                packet_id: self.nz16()?,
                properties: self.uprops()?,
                reason_string: self.opt(Self::str)?,
                status: self
                    .list(|r| SubscribeAckReason::try_from(r.num_max(0, 255)? as u8).ok())?,
            }),
            10 => Packet::Unsubscribe(Unsubscribe {
                packet_id: self.nz16()?,
                user_properties: self.uprops()?,
                topic_filters: self.list(Self::str)?,
            }),
            11 => Packet::UnsubscribeAck(UnsubscribeAck {
                packet_id: self.nz16()?,
                properties: self.uprops()?,
                reason_string: self.opt(Self::str)?,
                status: self
                    .list(|r| UnsubscribeAckReason::try_from(r.num_max(0, 255)? as u8).ok())?,
            }),
            12 => Packet::PingRequest,
            13 => Packet::PingResponse,
            14 => Packet::Disconnect(Disconnect {
                reason_code: DisconnectReasonCode::try_from(self.num_max(0, 255)? as u8).ok()?,
                session_expiry_interval_secs: self.opt(Self::u32)?,
                server_reference: self.opt(Self::str)?,
                reason_string: self.opt(Self::str)?,
                user_properties: self.uprops()?,
            }),
            15 => Packet::Auth(Auth {
                reason_code: AuthReasonCode::try_from(self.num_max(0, 255)? as u8).ok()?,
                auth_method: self.opt(Self::str)?,
                auth_data: self.opt(Self::bytes)?,
                reason_string: self.opt(Self::str)?,
                user_properties: self.uprops()?,
            }),
            _ => return None,
        })
    }
}

// ---------------------------------------------------------------- codec introspection through Debug
fn codec_state_tag(codec: &Codec) -> u64 {
    let s = format!("{codec:?}");
    let key = "state: Cell { value: ";
    let i = s.find(key).expect("state in Debug output") + key.len();
    let name: String = s[i..].chars().take_while(|c| c.is_ascii_alphabetic()).collect();
    match name.as_str() {
        "FrameHeader" => 0,
        "Frame" => 1,
        "PublishHeader" => 2,
        "PublishProperties" => 3,
        "PublishPayload" => 4,
        other => panic!("unknown decoder state {other}"),
    }
}

fn codec_npi(codec: &Codec) -> u64 {
    let s = format!("{codec:?}");
    let i = s.find("flags: Cell").expect("flags in Debug output");
    u64::from(s[i..].contains("NO_PROBLEM_INFO"))
}

// ---------------------------------------------------------------- dec5
fn dec5(c: &Fields) -> Fields {
    dec5_impl(c, false)
}

/// engine "sized5" (23): every item as the in-flight limiter sees it (`impl SizedRequest for Decoded`):
/// kind (1 packet, 2 publish, 3 chunk), size(), is_publish(), is_chunk()
fn sized5(c: &Fields) -> Fields {
    dec5_impl(c, true)
}

fn dec5_impl(c: &Fields, sized: bool) -> Fields {
    if c.len() != 3 || c[0].len() != 2 {
        return vec![vec![99]];
    }
    let codec = Codec::new();
    codec.set_max_inbound_size(c[0][0] as u32);
    codec.set_min_chunk_size(c[0][1] as u32);
    let stream = bytes_of(&c[2]);

    // pieces: cut k = "deliver everything before offset k, then decode"
    let mut pieces: Vec<&[u8]> = Vec::new();
    let mut cur: u64 = 0;
    let mut rest: &[u8] = &stream;
    for cut in &c[1] {
        let k = std::cmp::min(cut.saturating_sub(cur), rest.len() as u64) as usize;
        let (a, b) = rest.split_at(k);
        pieces.push(a);
        rest = b;
        cur = std::cmp::max(cur, *cut);
    }
    pieces.push(rest);

    let mut out: Fields = Vec::new();
    let mut buf = BytesMut::new();
    for piece in pieces {
        buf.extend_from_slice(piece);
        loop {
            match codec.decode(&mut buf) {
                Ok(Some(item)) if sized => {
                    let (size, is_publish, is_chunk) = ntex_mqtt::verif_hooks::sized_v5(&item);
                    let kind = match item {
                        Decoded::Packet(..) => 1,
                        Decoded::Publish(..) => 2,
                        Decoded::PayloadChunk(..) => 3,
                    };
                    out.push(vec![kind, u64::from(size), u64::from(is_publish), u64::from(is_chunk)]);
                }
                Ok(Some(item)) => {
                    let mut d = D(Vec::new());
                    match item {
                        Decoded::Packet(p, rl) => {
                            d.num(1);
                            d.num(u64::from(rl));
                            d.packet(&p);
                        }
                        Decoded::Publish(p, payload, rl) => {
                            d.num(2);
                            d.num(u64::from(rl));
                            d.publish(&p);
                            d.bytes(payload.as_ref());
                        }
                        Decoded::PayloadChunk(chunk, eof) => {
                            d.num(3);
                            d.bool(eof);
                            d.0.extend(chunk.iter().map(|b| u64::from(*b)));
                        }
                    }
                    out.push(d.0);
                }
                Ok(None) => break,
                Err(e) => {
                    out.push(vec![4, de_code(&e)]);
                    return out;
                }
            }
        }
    }
    out.push(vec![5, buf.len() as u64, codec_state_tag(&codec), codec_npi(&codec)]);
    out
}

// ---------------------------------------------------------------- enc5
fn parse_op(f: &[u64]) -> Option<Encoded> {
    let mut r = R { f, pos: 0 };
    match r.num()? {
        1 => {
            let p = r.packet()?;
            if r.at_end() { Some(Encoded::Packet(p)) } else { None }
        }
        2 => {
            let has_buf = r.bool()?;
            let p = r.publish()?;
            let rest = r.rest()?;
            if has_buf {
                Some(Encoded::Publish(p, Some(Bytes::from(rest))))
            } else if rest.is_empty() {
                Some(Encoded::Publish(p, None))
            } else {
                None
            }
        }
        3 => Some(Encoded::PayloadChunk(Bytes::from(r.rest()?))),
        _ => None,
    }
}

fn snapshot(dst: &BytePages) -> Vec<u8> {
    let mut tmp = BytePages::default();
    dst.copy_to(&mut tmp);
    tmp.freeze().to_vec()
}

/// remaining length of the frame at the start of `b` (what the encoder was given as content size)
fn frame_rl(b: &[u8]) -> u64 {
    match ntex_mqtt::verif_hooks::decode_variable_length(&b[1..]) {
        Ok(Some((v, _))) => u64::from(v),
        _ => 9998,
    }
}

fn enc5(c: &Fields) -> Fields {
    // config: peer maximum packet size, no_problem_info, optionally the capability calls the server makes after
    // the handshake: bit 0 set_retain_available(false), 1 set_sub_ids_available(false), 2 set_retain_available(true),
    // 3 set_sub_ids_available(true)
    if c.is_empty() || !(c[0].len() == 2 || c[0].len() == 3) || c[0][1] > 1 || (c[0].len() == 3 && c[0][2] > 15) {
        return vec![vec![99]];
    }
    let caps = c[0].get(2).copied().unwrap_or(0);
    let mut ops = Vec::new();
    for f in &c[1..] {
        match parse_op(f) {
            Some(op) => ops.push(op),
            None => return vec![vec![97]],
        }
    }
    let codec = Codec::new();
    if c[0][0] != 0 {
        codec.set_max_outbound_size(c[0][0] as u32);
    }
    if c[0][1] == 1 {
        // NO_PROBLEM_INFO is only set by decoding a CONNECT with Request Problem Information = 0
        let mut b = BytesMut::from(
            &b"\x10\x0f\x00\x04MQTT\x05\x00\x00\x00\x02\x17\x00\x00\x00"[..],
        );
        match codec.decode(&mut b) {
            Ok(Some(Decoded::Packet(Packet::Connect(_), _))) => (),
            other => panic!("setup CONNECT not decoded: {other:?}"),
        }
        assert_eq!(codec_npi(&codec), 1);
    }
    if caps & 1 != 0 {
        ntex_mqtt::verif_hooks::codec_v5_set_caps(&codec, Some(false), None);
    }
    if caps & 2 != 0 {
        ntex_mqtt::verif_hooks::codec_v5_set_caps(&codec, None, Some(false));
    }
    if caps & 4 != 0 {
        ntex_mqtt::verif_hooks::codec_v5_set_caps(&codec, Some(true), None);
    }
    if caps & 8 != 0 {
        ntex_mqtt::verif_hooks::codec_v5_set_caps(&codec, None, Some(true));
    }

    let mut out: Fields = Vec::new();
    let mut dst = BytePages::default();
    let mut prev: Vec<u8> = Vec::new();
    for op in ops {
        let is_chunk = matches!(op, Encoded::PayloadChunk(_));
        let res = catch_unwind(AssertUnwindSafe(|| codec.encodev(op, &mut dst)));
        let Ok(res) = res else {
            out.push(vec![9999]);
            break;
        };
        let all = snapshot(&dst);
        if all.len() != dst.len() || all.len() < prev.len() || all[..prev.len()] != prev[..] {
            // the bytes that were in the buffer before the op have been damaged
            out.push(vec![7777]);
            break;
        }
        let appended = &all[prev.len()..];
        let mut o = Vec::new();
        match res {
            Ok(()) => {
                o.push(0);
                o.push(if is_chunk { 0 } else { frame_rl(appended) });
            }
            Err(e) => {
                o.push(1);
                o.push(ee_code(e));
            }
        }
        o.extend(appended.iter().map(|b| u64::from(*b)));
        out.push(o);
        prev = all;
    }
    out
}

// ---------------------------------------------------------------- sniff
fn sniff(c: &Fields) -> Fields {
    if c.len() != 1 {
        return vec![vec![99]];
    }
    let mut b = BytesMut::from(&bytes_of(&c[0])[..]);
    match ntex_mqtt::verif_hooks::sniff_version(&mut b) {
        Ok(Some(v)) => vec![vec![0, u64::from(v)]],
        Ok(None) => vec![vec![1]],
        Err(e) => vec![vec![2, de_code(&e)]],
    }
}
