//! engines for the MQTT v5 codec (stub)
use super::Engine;

pub fn lookup(_name: &str) -> Option<Engine> {
    None
}
