//! engines "sink3" / "sink5": the outbound bookkeeping of a connection (v3|v5 `MqttShared` + `MqttSink`
//! and the builders), driven through the real sink of a real server (role 0) or client (role 1)
//! connection over ntex_io::testing::IoTest. Model: coq/Model/Sink.v.
//!
//! case: first field `cap,role`: cap = MqttServiceConfig::set_max_send(cap) (role 0, the sink of a server connection;
//!   SUBACK/UNSUBACK from the peer are ignored by a server dispatcher) or the window of a client connection
//!   (role 1: v3 max_send, v5 the Receive Maximum of the CONNACK; cap 0 is set through the hook);
//!   then one field per operation
//!   1,t,kind,id[,size]  start task t: kind 1 QoS1 send_at_least_once, 2 QoS2 send_exactly_once, 3 subscribe().send(),
//!                       4 unsubscribe().send(), 5 MqttSink::ready(), 6 QoS0 send_at_most_once (id ignored),
//!                       7 stream_at_least_once(size), 8 QoS1 send_at_least_once whose PUBLISH cannot be encoded: its
//!                       payload (8192 bytes) makes the packet larger than the maximum outbound packet size of the
//!                       connection (4096: v3 `MqttServiceConfig::set_max_size`, which the v3 codec also applies to
//!                       the PUBLISH packets it encodes; v5 the Maximum Packet Size announced by the peer in its
//!                       CONNECT (role 0) / CONNACK (role 1)); id 0 = automatic packet id, else `.packet_id(id)`;
//!                       = call the API and poll the returned future once. A task number already in use: no-op.
//!   16,t,kind,id[,size] create task t: call the API, do NOT poll the returned future (`1` = `16` then `2,t`)
//!   2,t                 poll task t once
//!   3,t                 drop task t's (pending) future
//!   4,k,id              peer sends one ack: k 1 PUBACK, 2 PUBREC, 3 PUBCOMP, 4 SUBACK, 5 UNSUBACK,
//!                       6 PUBREC with a failure reason code (v5; v3: plain PUBREC)
//!   5,k1,id1,k2,id2,..  several acks in ONE write
//!   6,t                 task t (holding a QoS2 receipt) calls release() and polls it once
//!   7,t                 task t drops its receipt without releasing
//!   8,b                 write back-pressure on/off       9,n  set_cap(n)
//!   10                  sink.close()                     11   sink.force_close()
//!   12,n                preset the packet id counter
//!   13,t,n              streaming task t: StreamingPayload::send(n bytes), polled once; when a chunk send of t is
//!                       still pending that one is polled again instead (n ignored)
//!   14,t                drop the StreamingPayload of t (and its pending chunk send, if any)
//!   15,t                drop the pending chunk send of t
//!   18,t                sink.close() and, in the same turn (nothing runs in between), a poll of task t
//!   19,t,kind,id        spawn task t (kind 1, 3 or 4): the send future is handed to the executor (ntex::rt::spawn)
//!                       instead of being polled by the case; it runs whenever it has been woken, in the executor's
//!                       order.  One spawned task per case; operations 2 / 3 on it are ignored.
//!   17,id               the peer writes a well-formed QoS 1 PUBLISH (topic "a", payload "x", packet id `id` as u16): an
//!                       INBOUND request; the publish handler of the server answers at once with Ok, so the PUBACK(id)
//!                       is written as the response (wire entry 104,id).  Ignored (on both sides of the comparison)
//!                       when id = 0, when the connection is not open, while a streamed payload is owed (the codec would
//!                       refuse the PUBACK and io.rs would end the connection with the encode error), and for role 1
//!                       (a client run with `start_default` hands an inbound PUBLISH to the default control service,
//!                       which answers every message with a disconnect)
//! observation: one field per operation:
//!   n_inflight,n_waiters,cap,wrb,streaming,credit,is_ready,is_open, {t,status}* , 255, {tag,id}*
//!   a streaming task t is followed by the entry 100+t,<status of its last chunk send>
//!   status: 0 not started/dropped, 1 pending, 2 Ok, 3 Disconnected, 4 PacketIdInUse, 5 Encode, 6 UnexpectedRelease,
//!           7 other (StreamingCancelled), 9 panicked
//!   wire tags: 1 PUBLISH qos1, 2 PUBLISH qos2, 3 PUBLISH qos0, 4 PUBREL, 5 SUBSCRIBE, 6 UNSUBSCRIBE,
//!              7,reason DISCONNECT (v5: the reason code, 0 when the packet has no body; v3: 0),
//!              8,len streamed payload bytes; 104,id PUBACK (the answer to an inbound PUBLISH, op 17);
//!              anything else 100+type,0
use std::cell::RefCell;
use std::collections::BTreeMap;
use std::future::Future;
use std::panic::{AssertUnwindSafe, catch_unwind};
use std::pin::Pin;
use std::rc::Rc;
use std::task::Poll;

use ntex::util::{ByteString, Bytes};
use ntex::service::{ServiceFactory, fn_service};
use ntex_io::{Io, testing::IoTest};
use ntex_mqtt::error::SendPacketError;
use ntex_mqtt::{MqttServiceConfig, v3, v5};

use crate::Fields;
use crate::conn;
use crate::rt::{poll_once, settle};

type BoxFut<T> = Pin<Box<dyn Future<Output = T>>>;

/// maximum outbound packet size of every connection of this engine; every packet of the kinds 1..7 stays far
/// below it (a streamed PUBLISH counts with its declared size: the generators use sizes <= 25)
const MAX_PACKET: u32 = 4096;
/// payload of a kind 8 send: the PUBLISH is larger than `MAX_PACKET`
const BIG_PAYLOAD: usize = 8192;

/// what a task's future resolves to
enum Out {
    Status(u64),
    /// QoS2 receipt: calling the closure = `release()`; dropping it = dropping the PublishReceived
    Receipt(Box<dyn FnOnce() -> BoxFut<u64>>),
}

enum Started {
    Sync(u64),
    Fut(BoxFut<Out>),
    Stream(BoxFut<Out>, Box<dyn Fn(usize) -> BoxFut<u64>>),
}

fn code(e: &SendPacketError) -> u64 {
    match e {
        SendPacketError::Disconnected => 3,
        SendPacketError::PacketIdInUse(_) => 4,
        SendPacketError::Encode(_) => 5,
        SendPacketError::UnexpectedRelease => 6,
        SendPacketError::StreamingCancelled => 7,
    }
}

fn status<T>(r: Result<T, SendPacketError>) -> u64 {
    match r {
        Ok(_) => 2,
        Err(e) => code(&e),
    }
}

trait Api: Clone + 'static {
    fn state(&self) -> (usize, usize, usize, bool, bool);
    fn credit(&self) -> usize;
    fn is_ready(&self) -> bool;
    fn is_open(&self) -> bool;
    fn wrb(&self, on: bool);
    fn set_cap(&self, n: usize);
    fn set_idx(&self, n: u16);
    fn close(&self);
    fn force_close(&self);
    fn start(&self, kind: u64, id: u16, size: u32) -> Started;
}

macro_rules! api {
    ($name:ident, $v:ident, $sub:expr, $subopt:expr) => {
        #[derive(Clone)]
        struct $name($v::MqttSink);

        impl Api for $name {
            fn state(&self) -> (usize, usize, usize, bool, bool) {
                self.0.verif_state()
            }
            fn credit(&self) -> usize {
                self.0.credit()
            }
            fn is_ready(&self) -> bool {
                self.0.is_ready()
            }
            fn is_open(&self) -> bool {
                self.0.is_open()
            }
            fn wrb(&self, on: bool) {
                self.0.verif_wr_backpressure(on);
            }
            fn set_cap(&self, n: usize) {
                self.0.verif_set_cap(n);
            }
            fn set_idx(&self, n: u16) {
                self.0.verif_set_idx(n);
            }
            fn close(&self) {
                self.0.close();
            }
            fn force_close(&self) {
                self.0.force_close();
            }
            fn start(&self, kind: u64, id: u16, size: u32) -> Started {
                let sink = &self.0;
                let publish = || {
                    let b = sink.publish(ByteString::from_static("a"));
                    if id != 0 && kind != 6 { b.packet_id(id) } else { b }
                };
                match kind {
                    1 => {
                        let f = publish().send_at_least_once(Bytes::from_static(b"x"));
                        Started::Fut(Box::pin(async move { Out::Status(status(f.await)) }))
                    }
                    2 => {
                        let f = publish().send_exactly_once(Bytes::from_static(b"x"));
                        Started::Fut(Box::pin(async move {
                            match f.await {
                                Ok(receipt) => Out::Receipt(Box::new(move || {
                                    Box::pin(async move { status(receipt.release().await) })
                                })),
                                Err(e) => Out::Status(code(&e)),
                            }
                        }))
                    }
                    3 => {
                        let b = ($sub)(sink);
                        let b = if id != 0 { b.packet_id(id) } else { b };
                        let b = b.topic_filter(ByteString::from_static("a"), $subopt);
                        Started::Fut(Box::pin(async move { Out::Status(status(b.send().await)) }))
                    }
                    4 => {
                        let b = sink.unsubscribe();
                        let b = if id != 0 { b.packet_id(id) } else { b };
                        let b = b.topic_filter(ByteString::from_static("a"));
                        Started::Fut(Box::pin(async move { Out::Status(status(b.send().await)) }))
                    }
                    5 => {
                        // `ready()` does its check in the call. Its return type captures the lifetime of
                        // `&self` (edition 2024 rules) although the future owns everything it uses: keep a
                        // clone of the sink alive next to the future and extend the borrow to it.
                        let keep = Box::new(sink.clone());
                        let ptr: *const $v::MqttSink = &*keep;
                        // SAFETY: `keep` is heap allocated, never moved out of the box, and is dropped
                        // after the future (moved into the async block below, declared before `keep`)
                        let f = unsafe { &*ptr }.ready();
                        Started::Fut(Box::pin(async move {
                            let r = f.await;
                            drop(keep);
                            Out::Status(if r { 2 } else { 3 })
                        }))
                    }
                    6 => Started::Sync(status(publish().send_at_most_once(Bytes::from_static(b"x")))),
                    8 => {
                        let f = publish().send_at_least_once(Bytes::from(vec![0x78u8; BIG_PAYLOAD]));
                        Started::Fut(Box::pin(async move { Out::Status(status(f.await)) }))
                    }
                    _ => {
                        let (f, stream) = publish().stream_at_least_once(size);
                        let stream = Rc::new(stream);
                        let send: Box<dyn Fn(usize) -> BoxFut<u64>> = Box::new(move |n| {
                            let s = stream.clone();
                            Box::pin(async move { status(s.send(Bytes::from(vec![0x55u8; n])).await) })
                        });
                        Started::Stream(Box::pin(async move { Out::Status(status(f.await)) }), send)
                    }
                }
            }
        }
    };
}

api!(Api3, v3, |s: &v3::MqttSink| s.subscribe(), v3::codec::QoS::AtMostOnce);
api!(Api5, v5, |s: &v5::MqttSink| s.subscribe(None), v5::codec::SubscriptionOptions::default());

#[derive(Default)]
struct Task {
    kind: u64,
    status: u64,
    fut: Option<BoxFut<Out>>,
    receipt: Option<Box<dyn FnOnce() -> BoxFut<u64>>>,
    relfut: Option<BoxFut<u64>>,
    stream: Option<Box<dyn Fn(usize) -> BoxFut<u64>>>,
    chunk: Option<BoxFut<u64>>,
    chunk_status: u64,
}

/// a task future owned by the executor: its outcome is left in `out` (1 = still pending); `abort` drops it
struct Spawned {
    fut: Option<BoxFut<Out>>,
    out: Rc<std::cell::Cell<u64>>,
    abort: Rc<std::cell::Cell<bool>>,
    waker: Rc<RefCell<Option<std::task::Waker>>>,
}

impl Future for Spawned {
    type Output = ();

    fn poll(self: Pin<&mut Self>, cx: &mut std::task::Context<'_>) -> Poll<()> {
        let this = self.get_mut();
        if this.abort.get() {
            if let Some(f) = this.fut.take() {
                guarded_drop(f);
            }
            return Poll::Ready(());
        }
        *this.waker.borrow_mut() = Some(cx.waker().clone());
        let Some(mut f) = this.fut.take() else { return Poll::Ready(()) };
        match guard(|| f.as_mut().poll(cx)) {
            Some(Poll::Pending) => {
                this.fut = Some(f);
                Poll::Pending
            }
            Some(Poll::Ready(Out::Status(s))) => {
                this.out.set(s);
                Poll::Ready(())
            }
            Some(Poll::Ready(Out::Receipt(r))) => {
                this.out.set(2);
                guarded_drop(r);
                Poll::Ready(())
            }
            None => {
                this.out.set(9);
                guarded_drop(f);
                Poll::Ready(())
            }
        }
    }
}

/// run `f`; a panic inside the crate is contained here
fn guard<T>(f: impl FnOnce() -> T) -> Option<T> {
    catch_unwind(AssertUnwindSafe(f)).ok()
}

fn guarded_drop<T>(v: T) {
    let _ = guard(move || drop(v));
}

impl Task {
    fn poll_main(&mut self) {
        if let Some(mut f) = self.fut.take() {
            match guard(|| poll_once(&mut f)) {
                Some(Poll::Pending) => self.fut = Some(f),
                Some(Poll::Ready(Out::Status(s))) => self.status = s,
                Some(Poll::Ready(Out::Receipt(r))) => {
                    self.status = 2;
                    self.receipt = Some(r);
                }
                None => {
                    self.status = 9;
                    guarded_drop(f);
                }
            }
        } else if let Some(mut f) = self.relfut.take() {
            match guard(|| poll_once(&mut f)) {
                Some(Poll::Pending) => self.relfut = Some(f),
                Some(Poll::Ready(s)) => self.status = s,
                None => {
                    self.status = 9;
                    guarded_drop(f);
                }
            }
        }
    }

    fn poll_chunk(&mut self) {
        if let Some(mut f) = self.chunk.take() {
            match guard(|| poll_once(&mut f)) {
                Some(Poll::Pending) => {
                    self.chunk = Some(f);
                    self.chunk_status = 1;
                }
                Some(Poll::Ready(s)) => self.chunk_status = s,
                None => {
                    self.chunk_status = 9;
                    guarded_drop(f);
                }
            }
        }
    }
}

/// peer side: raw bytes -> abstract packets
struct Wire {
    v5: bool,
    buf: Vec<u8>,
    payload_left: usize,
}

impl Wire {
    fn feed(&mut self, data: &[u8], out: &mut Vec<u64>) {
        // streamed payload bytes first
        let mut data = data;
        if self.buf.is_empty() && self.payload_left > 0 && !data.is_empty() {
            let n = data.len().min(self.payload_left);
            self.payload_left -= n;
            out.extend_from_slice(&[8, n as u64]);
            data = &data[n..];
        }
        self.buf.extend_from_slice(data);
        loop {
            if self.buf.len() < 2 {
                return;
            }
            // fixed header
            let first = self.buf[0];
            let mut rl = 0usize;
            let mut shift = 0;
            let mut pos = 1;
            loop {
                if pos >= self.buf.len() {
                    return;
                }
                let b = self.buf[pos];
                pos += 1;
                rl |= ((b & 0x7f) as usize) << shift;
                shift += 7;
                if b & 0x80 == 0 {
                    break;
                }
                if shift > 21 {
                    out.extend_from_slice(&[199, 0]);
                    self.buf.clear();
                    return;
                }
            }
            let tp = first >> 4;
            if tp == 3 {
                let qos = (first >> 1) & 3;
                // variable header: topic, [id], [v5 property length]
                if self.buf.len() < pos + 2 {
                    return;
                }
                let tl = ((self.buf[pos] as usize) << 8) | self.buf[pos + 1] as usize;
                let mut vh = 2 + tl;
                let mut id = 0u64;
                if qos > 0 {
                    if self.buf.len() < pos + vh + 2 {
                        return;
                    }
                    id = ((self.buf[pos + vh] as u64) << 8) | self.buf[pos + vh + 1] as u64;
                    vh += 2;
                }
                if self.v5 {
                    if self.buf.len() < pos + vh + 1 {
                        return;
                    }
                    // the harness never sets publish properties: length byte 0
                    let pl = self.buf[pos + vh] as usize;
                    vh += 1 + pl;
                }
                if self.buf.len() < pos + vh {
                    return;
                }
                let payload = rl.saturating_sub(vh);
                let have = (self.buf.len() - pos - vh).min(payload);
                out.extend_from_slice(&[match qos { 1 => 1, 2 => 2, _ => 3 }, id]);
                self.buf.drain(..pos + vh + have);
                self.payload_left = payload - have;
                if self.payload_left > 0 {
                    // whatever follows belongs to the payload
                    let rest: Vec<u8> = std::mem::take(&mut self.buf);
                    if !rest.is_empty() {
                        let n = rest.len().min(self.payload_left);
                        self.payload_left -= n;
                        out.extend_from_slice(&[8, n as u64]);
                        self.buf.extend_from_slice(&rest[n..]);
                    }
                    if self.payload_left > 0 {
                        return;
                    }
                }
            } else {
                if self.buf.len() < pos + rl {
                    return;
                }
                let id = if rl >= 2 && matches!(tp, 4 | 6 | 8 | 10) {
                    ((self.buf[pos] as u64) << 8) | self.buf[pos + 1] as u64
                } else if tp == 14 && self.v5 && rl >= 1 {
                    // DISCONNECT: the slot carries the reason code (v3 has none: 0)
                    u64::from(self.buf[pos])
                } else {
                    0
                };
                let tag = match tp {
                    6 => 4,
                    8 => 5,
                    10 => 6,
                    14 => 7,
                    other => 100 + u64::from(other),
                };
                out.extend_from_slice(&[tag, id]);
                self.buf.drain(..pos + rl);
            }
        }
    }
}

fn ack_bytes(v5: bool, k: u64, id: u64) -> Vec<u8> {
    let (h, l) = ((id >> 8) as u8, id as u8);
    match (k, v5) {
        (1, _) => vec![0x40, 2, h, l],
        (2, _) | (6, false) => vec![0x50, 2, h, l],
        // PUBREC refusing the publish (NotAuthorized): the sender's exchange still has to be brought to its end
        (6, true) => vec![0x50, 3, h, l, 0x87],
        (3, _) => vec![0x70, 2, h, l],
        (4, false) => vec![0x90, 3, h, l, 0],
        (4, true) => vec![0x90, 4, h, l, 0, 0],
        (5, false) => vec![0xb0, 2, h, l],
        (5, true) => vec![0xb0, 4, h, l, 0, 0],
        _ => Vec::new(),
    }
}

async fn drive<A: Api>(api: A, peer: IoTest, v5: bool, c: &Fields) -> Fields {
    let role = c.first().and_then(|f| f.get(1)).copied().unwrap_or(0);
    let mut tasks: BTreeMap<u64, Task> = BTreeMap::new();
    let mut wire = Wire { v5, buf: Vec::new(), payload_left: 0 };
    let mut obs = Fields::new();
    let arg = |op: &Vec<u64>, i: usize| op.get(i).copied().unwrap_or(0);
    // the task owned by the executor (operation 19): number, outcome cell, abort flag, last waker
    type Auto = (u64, Rc<std::cell::Cell<u64>>, Rc<std::cell::Cell<bool>>, Rc<RefCell<Option<std::task::Waker>>>);
    let mut auto: Option<Auto> = None;
    for op in &c[1..] {
        let is_auto = |t: u64| auto.as_ref().is_some_and(|a| a.0 == t);
        match op.first().copied().unwrap_or(0) {
            19 => {
                let (t, kind, id) = (arg(op, 1), arg(op, 2), arg(op, 3));
                if op.len() >= 4 && auto.is_none() && [1, 3, 4].contains(&kind) && !tasks.contains_key(&t) {
                    let mut task = Task { kind, ..Task::default() };
                    match guard(|| api.start(kind, id as u16, 0)) {
                        None => task.status = 9,
                        Some(Started::Sync(s)) => task.status = s,
                        Some(Started::Fut(f)) | Some(Started::Stream(f, _)) => {
                            task.status = 1;
                            let out = Rc::new(std::cell::Cell::new(1u64));
                            let abort = Rc::new(std::cell::Cell::new(false));
                            let waker = Rc::new(RefCell::new(None));
                            let sp = Spawned { fut: Some(f), out: out.clone(), abort: abort.clone(), waker: waker.clone() };
                            ntex::rt::spawn(sp);
                            auto = Some((t, out, abort, waker));
                        }
                    }
                    tasks.insert(t, task);
                }
            }
            2 | 3 if is_auto(arg(op, 1)) => {}
            o @ (1 | 16) => {
                let first_poll = o == 1;
                let (t, kind, id, size) = (arg(op, 1), arg(op, 2), arg(op, 3), arg(op, 4));
                if (1..=8).contains(&kind) && !tasks.contains_key(&t) {
                    let mut task = Task { kind, ..Task::default() };
                    match guard(|| api.start(kind, id as u16, size as u32)) {
                        None => task.status = 9,
                        Some(Started::Sync(s)) => task.status = s,
                        Some(Started::Fut(f)) => {
                            task.status = 1;
                            task.fut = Some(f);
                            if first_poll {
                                task.poll_main();
                            }
                        }
                        Some(Started::Stream(f, s)) => {
                            task.status = 1;
                            task.fut = Some(f);
                            task.stream = Some(s);
                            if first_poll {
                                task.poll_main();
                            }
                        }
                    }
                    tasks.insert(t, task);
                }
            }
            2 => {
                if let Some(task) = tasks.get_mut(&arg(op, 1)) {
                    task.poll_main();
                }
            }
            3 => {
                if let Some(task) = tasks.get_mut(&arg(op, 1)) {
                    if let Some(f) = task.fut.take() {
                        guarded_drop(f);
                        task.status = 0;
                    } else if let Some(f) = task.relfut.take() {
                        guarded_drop(f);
                        task.status = 0;
                    }
                }
            }
            4 | 5 => {
                let mut bytes = Vec::new();
                for pair in op[1..].chunks(2) {
                    if pair.len() == 2 {
                        bytes.extend_from_slice(&ack_bytes(v5, pair[0], pair[1]));
                    }
                }
                if !bytes.is_empty() {
                    peer.write(bytes);
                }
            }
            6 => {
                if let Some(task) = tasks.get_mut(&arg(op, 1))
                    && let Some(r) = task.receipt.take()
                {
                    match guard(r) {
                        Some(f) => {
                            task.status = 1;
                            task.relfut = Some(f);
                            task.poll_main();
                        }
                        None => task.status = 9,
                    }
                }
            }
            7 => {
                if let Some(task) = tasks.get_mut(&arg(op, 1))
                    && let Some(r) = task.receipt.take()
                {
                    guarded_drop(r);
                    task.status = 0;
                }
            }
            8 => api.wrb(arg(op, 1) != 0),
            9 => api.set_cap(arg(op, 1) as usize),
            10 => api.close(),
            // a graceful close and, in the same turn (nothing runs in between), a poll of task t
            18 => {
                api.close();
                if let Some(task) = tasks.get_mut(&arg(op, 1)) {
                    task.poll_main();
                }
            }
            11 => api.force_close(),
            12 => api.set_idx(arg(op, 1) as u16),
            13 => {
                if let Some(task) = tasks.get_mut(&arg(op, 1)) {
                    if task.chunk.is_none()
                        && let Some(s) = task.stream.as_ref()
                    {
                        task.chunk = guard(|| s(arg(op, 2) as usize));
                    }
                    task.poll_chunk();
                }
            }
            14 => {
                if let Some(task) = tasks.get_mut(&arg(op, 1))
                    && let Some(s) = task.stream.take()
                {
                    if let Some(f) = task.chunk.take() {
                        guarded_drop(f);
                    }
                    guarded_drop(s);
                    task.chunk_status = 0;
                }
            }
            15 => {
                if let Some(task) = tasks.get_mut(&arg(op, 1))
                    && let Some(f) = task.chunk.take()
                {
                    guarded_drop(f);
                    task.chunk_status = 0;
                }
            }
            17 => {
                let id = arg(op, 1) as u16;
                let streaming = api.state().4;
                if id != 0 && role == 0 && api.is_open() && !streaming {
                    let (h, l) = ((id >> 8) as u8, id as u8);
                    if v5 {
                        // QoS 1 PUBLISH, topic "a", packet id, no properties, payload "x"
                        peer.write([0x32, 7, 0, 1, b'a', h, l, 0, b'x']);
                    } else {
                        peer.write([0x32, 6, 0, 1, b'a', h, l, b'x']);
                    }
                }
            }
            // self-test of the case isolation in `run_lines` (never generated)
            99 if std::env::var_os("MV_SINK_SELFTEST_PANIC").is_some() => panic!("selftest"),
            _ => {}
        }
        settle().await;
        let (inflight, waiters, cap, wrb, streaming) = api.state();
        let open = api.is_open();
        let mut o = vec![
            inflight as u64,
            waiters as u64,
            cap as u64,
            u64::from(wrb),
            u64::from(streaming),
            api.credit() as u64,
            u64::from(open && api.is_ready()),
            u64::from(open),
        ];
        if let Some((t, out, _, _)) = &auto
            && let Some(task) = tasks.get_mut(t)
        {
            task.status = out.get();
        }
        for (t, task) in &tasks {
            o.push(*t);
            o.push(task.status);
            if task.kind == 7 {
                o.push(100 + *t);
                o.push(task.chunk_status);
            }
        }
        o.push(255);
        wire.feed(&peer.read_any(), &mut o);
        obs.push(o);
    }
    // tear down: futures first, then the connection
    if let Some((_, _, abort, waker)) = auto.take() {
        abort.set(true);
        if let Some(w) = waker.borrow_mut().take() {
            w.wake();
        }
        settle().await;
    }
    for (_, task) in std::mem::take(&mut tasks) {
        guarded_drop(task);
    }
    api.force_close();
    drop(peer);
    settle().await;
    obs
}

pub async fn run_case(v5: bool, c: &Fields) -> Fields {
    let cap = c.first().and_then(|f| f.first()).copied().unwrap_or(1) as u16;
    let role = c.first().and_then(|f| f.get(1)).copied().unwrap_or(0);
    if c.is_empty() {
        return Fields::new();
    }
    if role == 0 {
        let cfg = MqttServiceConfig::new().set_max_send(cap).set_max_qos(ntex_mqtt::QoS::ExactlyOnce);
        if v5 {
            // the peer's CONNECT announces Maximum Packet Size = MAX_PACKET
            let slot = Rc::new(RefCell::new(None));
            let peer = conn::v5_server_with_sink_connect(slot.clone(), cfg, conn::V5_CONNECT_MAX_4096).await;
            let sink: v5::MqttSink = slot.borrow().clone().expect("sink");
            drive(Api5(sink), peer, true, c).await
        } else {
            // v3 has no negotiated outbound limit: the codec's one max size (inbound frames AND encoded PUBLISH)
            let slot = Rc::new(RefCell::new(None));
            let peer = conn::v3_server_with_sink(slot.clone(), cfg.set_max_size(MAX_PACKET)).await;
            let sink: v3::MqttSink = slot.borrow().clone().expect("sink");
            drive(Api3(sink), peer, false, c).await
        }
    } else if v5 {
        let (sink, peer) = client5(cap).await;
        drive(Api5(sink), peer, true, c).await
    } else {
        let (sink, peer) = client3(cap).await;
        drive(Api3(sink), peer, false, c).await
    }
}

/// a real client connection (role 1): the harness plays the broker on the peer end
macro_rules! client_conn {
    ($fname:ident, $v:ident, $tag:expr, $connack:expr) => {
        async fn $fname(cap: u16) -> ($v::MqttSink, IoTest) {
            let (peer, end) = IoTest::create();
            peer.remote_buffer_cap(1 << 20);
            // (v3: the codec's max size is the outbound PUBLISH limit; the v5 client ignores it, its outbound
            // limit is the Maximum Packet Size of the CONNACK)
            let cfg = conn::shared_cfg(
                $tag,
                MqttServiceConfig::new().set_max_send(cap).set_max_size(if $tag == "C3" { MAX_PACKET } else { 0 }),
            );
            let end = RefCell::new(Some(end));
            let cfg2 = cfg.clone();
            let connector = $v::client::MqttConnector::<String, _>::new().connector(fn_service(
                move |_: ntex::connect::Connect<String>| {
                    let io = end.borrow_mut().take().map(|e| Io::new(e, cfg2.clone()));
                    async move { io.ok_or(ntex::connect::ConnectError::Unresolved) }
                },
            ));
            let slot: conn::Slot<$v::MqttSink> = Rc::new(RefCell::new(None));
            let slot2 = slot.clone();
            ntex::rt::spawn(async move {
                let svc = connector.pipeline(cfg).await.expect("connector");
                let connect = $v::client::Connect::new("broker".to_string())
                    .client_id("c")
                    .keep_alive(ntex::time::Seconds::ZERO);
                if let Ok(client) = svc.call(connect).await {
                    *slot2.borrow_mut() = Some(client.sink());
                    client.start_default().await;
                }
            });
            settle().await;
            let _connect = peer.read_any();
            let connack: Vec<u8> = $connack(cap);
            peer.write(connack);
            settle().await;
            let sink = slot.borrow().clone().expect("client sink");
            if cap == 0 {
                sink.verif_set_cap(0);
            }
            (sink, peer)
        }
    };
}

client_conn!(client3, v3, "C3", |_cap: u16| vec![0x20, 2, 0, 0]);
// CONNACK: session present 0, success, properties: receive maximum = cap, maximum packet size = MAX_PACKET
// (receive maximum 0 is a protocol error: the window is then closed through the hook)
client_conn!(client5, v5, "C5", |cap: u16| {
    let m = MAX_PACKET.to_be_bytes();
    if cap == 0 {
        vec![0x20, 8, 0, 0, 5, 0x27, m[0], m[1], m[2], m[3]]
    } else {
        vec![0x20, 11, 0, 0, 8, 0x21, (cap >> 8) as u8, cap as u8, 0x27, m[0], m[1], m[2], m[3]]
    }
});

/// all cases of the input on single-threaded ntex runtimes; a panic that escapes the per-task guards
/// (inside the dispatcher) ends the case with `9999` and the remaining cases run on a fresh runtime
pub fn run_lines(v5: bool, lines: Vec<String>) -> Vec<String> {
    let lines: Vec<String> = lines.into_iter().filter(|l| !l.starts_with('#')).collect();
    let results: Rc<RefCell<Vec<String>>> = Rc::new(RefCell::new(Vec::new()));
    while results.borrow().len() < lines.len() {
        let start = results.borrow().len();
        let rest: Vec<String> = lines[start..].to_vec();
        let r2 = results.clone();
        let res = catch_unwind(AssertUnwindSafe(|| {
            crate::rt::block_on(async move {
                for line in rest {
                    let case = crate::parse_line(&line);
                    let obs = run_case(v5, &case).await;
                    r2.borrow_mut().push(crate::show_line(&obs));
                }
            });
        }));
        if res.is_err() {
            results.borrow_mut().push("9999".to_string());
        }
    }
    let out = results.borrow().clone();
    out
}
