//! engines "ctlwrap3" / "ctlwrap5" (numbers 44 / 45): the glue between the framed dispatcher's write
//! back-pressure notifications and the sink (property C13, "blocked senders are always released"):
//! `ControlService` of /repo/src/v3/default.rs and /repo/src/v5/default.rs, the wrapper a server puts around
//! the application's control service.  Everything is real and reached through the public API only: a real
//! v3 / v5 MqttServer with `.control(app)` over ntex_io::testing::IoTest with a small write buffer
//! (`IoConfig::set_write_buf(1024, 256, 16)`); the notifications are issued by io::Dispatcher itself
//! (`spawn(inner.control.call(Control::wr(..)))`) when the write buffer really fills up / really drains.
//! The application's control service is GATED: its k-th `Control::WrBackpressure` call (1-based, in issue
//! order) returns only after operation `2,k`.  Model: coq/Model/CtlWrap.v.
//!
//! case: field 0 = `cap` (`MqttServiceConfig::set_max_send(cap)`, the send window); then one field per operation
//!   1,b   b != 0: write back-pressure begins: the peer stops accepting bytes (`remote_buffer_cap(0)`) and the
//!                 sink writes a QoS 0 PUBLISH with a 2048 byte payload (`send_at_most_once`), the write buffer
//!                 passes its high watermark and the dispatcher issues `Control::wr(true)`; nothing when
//!                 back-pressure is already on
//!         b == 0: write back-pressure ends: the peer accepts bytes again, the write buffer drains and the
//!                 dispatcher issues `Control::wr(false)`; nothing when back-pressure is not on
//!   2,k   the application's k-th WrBackpressure call completes (Ok(None)); nothing when fewer than k calls
//!         have been issued or call k has completed already
//!   3,t   start task t = `MqttSink::ready()`, polled once (a task number already in use: nothing)
//!   4,t   poll task t once
//!   5,t   start task t = QoS 1 `publish("a").send_at_least_once("x")`, polled once
//!   6,id  the peer sends PUBACK(id); nothing while back-pressure is on (a dispatcher in its back-pressure
//!         state does not read, the harness does not model the bytes waiting in the socket)
//! observation: one field per operation (after settle):
//!   is_ready, issued, completed, {t, status}*
//!     is_ready   `MqttSink::is_ready()` 0/1
//!     issued     number of WrBackpressure calls the application's control service has received
//!     completed  number of those that have returned
//!     status     1 pending, 2 done Ok (ready() = true / send Ok), 3 done Err (ready() = false / send Err)
use std::cell::{Cell, RefCell};
use std::collections::BTreeMap;
use std::future::Future;
use std::panic::{AssertUnwindSafe, catch_unwind};
use std::pin::Pin;
use std::rc::Rc;
use std::task::Poll;

use ntex::service::{cfg::SharedCfg, fn_service};
use ntex::util::{ByteString, Bytes};
use ntex_io::{IoConfig, testing::IoTest};
use ntex_mqtt::{Control, MqttServiceConfig, v3, v5};

use crate::Fields;
use crate::conn::{self, HErr};
use crate::rt::{Gates, poll_once, settle};

type BoxFut<T> = Pin<Box<dyn Future<Output = T>>>;

/// payload of the QoS 0 PUBLISH that fills the write buffer (high watermark 1024)
const FILL: usize = 2048;

/// what the application's control service shares with the harness
struct App {
    issued: Cell<u64>,
    completed: Cell<u64>,
    gate: Gates<u64>,
}

trait Api: 'static {
    fn is_ready(&self) -> bool;
    fn fill(&self);
    fn ready(&self) -> BoxFut<bool>;
    fn send(&self) -> BoxFut<bool>;
}

macro_rules! api {
    ($name:ident, $v:ident) => {
        struct $name($v::MqttSink);

        impl Api for $name {
            fn is_ready(&self) -> bool {
                self.0.is_ready()
            }
            fn fill(&self) {
                let _ = self
                    .0
                    .publish(ByteString::from_static("a"))
                    .send_at_most_once(Bytes::from(vec![0x78u8; FILL]));
            }
            fn ready(&self) -> BoxFut<bool> {
                // the call and the first poll happen together (operation 3 polls the task once)
                let s = self.0.clone();
                Box::pin(async move { s.ready().await })
            }
            fn send(&self) -> BoxFut<bool> {
                let s = self.0.clone();
                Box::pin(async move {
                    s.publish(ByteString::from_static("a"))
                        .send_at_least_once(Bytes::from_static(b"x"))
                        .await
                        .is_ok()
                })
            }
        }
    };
}

api!(Api3, v3);
api!(Api5, v5);

/// the application's control service: WrBackpressure calls are counted and gated, Stop answers at once
fn app_control(
    app: Rc<App>,
) -> impl Fn(Control<HErr>) -> BoxFut<Result<Option<()>, HErr>> + Clone + 'static {
    move |c: Control<HErr>| {
        let app = app.clone();
        let gated = matches!(c, Control::WrBackpressure(_));
        let k = if gated {
            app.issued.set(app.issued.get() + 1);
            app.issued.get()
        } else {
            0
        };
        Box::pin(async move {
            if gated {
                let _ = app.gate.wait(k).await;
                app.completed.set(app.completed.get() + 1);
            }
            Ok(None)
        })
    }
}

fn shared_cfg(tag: &'static str, cap: u16) -> SharedCfg {
    SharedCfg::new(tag)
        .add(MqttServiceConfig::new().set_max_send(cap))
        .add(IoConfig::new().set_write_buf(1024, 256, 16))
        .into()
}

async fn server3(cap: u16, app: Rc<App>) -> (IoTest, Box<dyn Api>) {
    let slot: conn::Slot<v3::MqttSink> = Rc::new(RefCell::new(None));
    let s2 = slot.clone();
    let ctl = app_control(app);
    let srv = v3::MqttServer::new(move |h: v3::Handshake| {
        let slot = s2.clone();
        async move {
            *slot.borrow_mut() = Some(h.sink());
            Ok::<_, HErr>(h.ack((), false))
        }
    })
    .control(fn_service(move |c: Control<HErr>| {
        let f = ctl(c);
        async move { f.await.map(|_| None) }
    }))
    .publish(|_p: v3::Publish| async { Ok::<_, HErr>(()) });
    let peer = conn::start_server(srv, shared_cfg("CW3", cap)).await;
    peer.write(conn::V3_CONNECT);
    settle().await;
    let _connack = peer.read_any();
    let sink = slot.borrow_mut().take().expect("handshake ran");
    (peer, Box::new(Api3(sink)))
}

async fn server5(cap: u16, app: Rc<App>) -> (IoTest, Box<dyn Api>) {
    let slot: conn::Slot<v5::MqttSink> = Rc::new(RefCell::new(None));
    let s2 = slot.clone();
    let ctl = app_control(app);
    let srv = v5::MqttServer::new(move |h: v5::Handshake| {
        let slot = s2.clone();
        async move {
            *slot.borrow_mut() = Some(h.sink());
            Ok::<_, HErr>(h.ack(()))
        }
    })
    .control(fn_service(move |c: Control<HErr>| {
        let f = ctl(c);
        async move { f.await.map(|_| None) }
    }))
    .publish(|p: v5::Publish| async move { Ok::<_, HErr>(p.ack()) });
    let peer = conn::start_server(srv, shared_cfg("CW5", cap)).await;
    peer.write(conn::V5_CONNECT);
    settle().await;
    let _connack = peer.read_any();
    let sink = slot.borrow_mut().take().expect("handshake ran");
    (peer, Box::new(Api5(sink)))
}

struct Task {
    status: u64,
    fut: Option<BoxFut<bool>>,
}

impl Task {
    fn poll(&mut self) {
        if let Some(mut f) = self.fut.take() {
            match catch_unwind(AssertUnwindSafe(|| poll_once(&mut f))) {
                Ok(Poll::Pending) => self.fut = Some(f),
                Ok(Poll::Ready(true)) => self.status = 2,
                Ok(Poll::Ready(false)) => self.status = 3,
                Err(_) => {
                    self.status = 9;
                    let _ = catch_unwind(AssertUnwindSafe(move || drop(f)));
                }
            }
        }
    }
}

pub async fn run_case(c: &Fields, v5: bool) -> Fields {
    let Some(cap) = c.first().and_then(|f| f.first()).copied() else {
        return vec![vec![9997]];
    };
    let app = Rc::new(App { issued: Cell::new(0), completed: Cell::new(0), gate: Gates::new() });
    let (peer, api) =
        if v5 { server5(cap as u16, app.clone()).await } else { server3(cap as u16, app.clone()).await };

    let mut tasks: BTreeMap<u64, Task> = BTreeMap::new();
    let mut done: Vec<u64> = Vec::new();
    let mut bp = false;
    let mut obs = Fields::new();
    for op in c.iter().skip(1) {
        match op.as_slice() {
            [1, b, ..] => {
                if *b != 0 && !bp {
                    bp = true;
                    peer.remote_buffer_cap(0);
                    api.fill();
                } else if *b == 0 && bp {
                    bp = false;
                    peer.remote_buffer_cap(1 << 20);
                }
            }
            [2, k, ..] => {
                if *k >= 1 && *k <= app.issued.get() && !done.contains(k) {
                    done.push(*k);
                    app.gate.open(*k, 0);
                }
            }
            [o @ (3 | 5), t, ..] => {
                if !tasks.contains_key(t) {
                    let fut = if *o == 3 { api.ready() } else { api.send() };
                    let mut task = Task { status: 1, fut: Some(fut) };
                    task.poll();
                    tasks.insert(*t, task);
                }
            }
            [4, t, ..] => {
                if let Some(task) = tasks.get_mut(t) {
                    task.poll();
                }
            }
            [6, id, ..] => {
                if !bp {
                    peer.write([0x40u8, 2, (*id >> 8) as u8, *id as u8]);
                }
            }
            _ => {}
        }
        settle().await;
        let _ = peer.read_any();
        let mut o = vec![u64::from(api.is_ready()), app.issued.get(), app.completed.get()];
        for (t, task) in &tasks {
            o.push(*t);
            o.push(task.status);
        }
        obs.push(o);
    }
    // tear down: futures first, then the connection; the gated calls are released
    for (_, task) in std::mem::take(&mut tasks) {
        let _ = catch_unwind(AssertUnwindSafe(move || drop(task)));
    }
    for k in 1..=app.issued.get() {
        app.gate.open(k, 0);
    }
    drop(api);
    drop(peer);
    settle().await;
    obs
}

/// all cases of the input on single-threaded ntex runtimes; a panic escaping into the runtime ends
/// the case with `9999` and the remaining cases run on a fresh runtime
pub fn run_lines(v5: bool, lines: Vec<String>) -> Vec<String> {
    let lines: Vec<String> = lines.into_iter().filter(|l| !l.starts_with('#')).collect();
    let results: Rc<RefCell<Vec<String>>> = Rc::new(RefCell::new(Vec::new()));
    while results.borrow().len() < lines.len() {
        let start = results.borrow().len();
        let rest: Vec<String> = lines[start..].to_vec();
        let r2 = results.clone();
        let res = catch_unwind(AssertUnwindSafe(|| {
            crate::rt::block_on(async move {
                for line in rest {
                    let case = crate::parse_line(&line);
                    let obs = run_case(&case, v5).await;
                    r2.borrow_mut().push(crate::show_line(&obs));
                }
            });
        }));
        if res.is_err() {
            results.borrow_mut().push("9999".to_string());
        }
    }
    let out = results.borrow().clone();
    out
}
