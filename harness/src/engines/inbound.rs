//! engines "inb3" / "inb5": inbound protocol logic of a real v3 / v5 MqttServer running over
//! ntex_io::testing::IoTest; the harness plays the peer (raw bytes) and the application
//! (gated publish handler, gated protocol service, logging control service).
//!
//! case: field 0 = configuration
//!     max_qos(0..2), receive_max (v5; 0 = library default), topic_alias_max (v5),
//!     max_receive (v3 limiter; 0 = unlimited), protocol_service_mode (0 = library default
//!     protocol service, 1 = harness protocol service, gated), connect_session_expiry (v5: 0 = the CONNECT
//!     asks for session expiry 0, else for 60 s), handle_qos_after_disconnect (v5: 0 = None, q + 1 = Some(q))
//!   then one field per operation
//!     1,tpl,args..   the peer writes one packet:
//!        tpl 1 PUBLISH qos,id,topic_idx,alias,retain,payload_len
//!              (topic 0 = "", 1..3 = "t1".."t3", 4 = "a/#"; alias 0 = none (v5 only))
//!        2 PUBACK id   3 PUBREC id   4 PUBREL id   5 PUBCOMP id
//!        6 SUBSCRIBE id,filter_idx (1 "a/b", 2 "a/+", 3 "a/#/b", 4 "a/b"+"a/#/b", 5 "sport/tennis#"+"a/+",
//!              6 "a/+"+"a/b"+"#/x": lists of mixed validity)   7 UNSUBSCRIBE id,filter_idx
//!        8 PINGREQ   9 DISCONNECT reason,session_expiry (v3: plain)   10 AUTH
//!        11 SUBACK id   12 UNSUBACK id   13 PINGRESP   14 CONNECT   15 CONNACK
//!     2,h,res        publish handler invocation h completes: 0 = Ok, 1 = plain error,
//!                    >= 128 (v5) = error mapped by the application to that negative ack
//!     3,c,res        protocol service invocation c (mode 1) completes: 0 = msg.ack(),
//!                    1 = error, 2 = typed ack (Subscribe::ack / Unsubscribe::ack, else msg.ack())
//! observation: one field per operation (after settle):
//!     (type_byte, id, reason)*  254  (h, qos, id, topic_idx, payload_len, retain)*  253
//!     (c, kind)*  252  first_stop_kind, stop_count, connection_open
//!   kind: 1 PublishRelease 2 Subscribe 3 Unsubscribe 4 Disconnect 5 Ping 6 Auth
//!   stop kind: 0 none 1 Protocol 2 Error 3 PeerGone
use std::cell::RefCell;
use std::rc::Rc;

use ntex::service::fn_service;
use ntex::util::BytesMut;
use ntex_codec::Decoder;
use ntex_io::testing::IoTest;
use ntex_mqtt::{Control, MqttServiceConfig, QoS, Reason, v3, v5};

use crate::conn::{self, HErr};
use crate::rt::{Gates, settle};
use crate::Fields;

#[derive(Default)]
struct Log {
    handlers: Vec<[u64; 6]>,
    protos: Vec<[u64; 2]>,
    first_stop: u64,
    stops: u64,
    hseen: usize,
    pseen: usize,
}

type SLog = Rc<RefCell<Log>>;

fn topic_idx(t: &str) -> u64 {
    match t {
        "t1" => 1,
        "t2" => 2,
        "t3" => 3,
        _ => 0,
    }
}

fn qos_of(n: u64) -> QoS {
    match n {
        0 => QoS::AtMostOnce,
        1 => QoS::AtLeastOnce,
        _ => QoS::ExactlyOnce,
    }
}

fn qos_num(q: QoS) -> u64 {
    match q {
        QoS::AtMostOnce => 0,
        QoS::AtLeastOnce => 1,
        QoS::ExactlyOnce => 2,
    }
}

fn log_stop<E>(log: &SLog, c: &Control<E>) {
    if let Control::Stop(r) = c {
        let k = match r {
            Reason::Protocol(_) => 1,
            Reason::Error(_) => 2,
            Reason::PeerGone(_) => 3,
        };
        let mut l = log.borrow_mut();
        if l.stops == 0 {
            l.first_stop = k;
        }
        l.stops += 1;
    }
}

// ---------------------------------------------------------------- peer side encoding
fn put_str(b: &mut Vec<u8>, s: &str) {
    b.extend_from_slice(&(s.len() as u16).to_be_bytes());
    b.extend_from_slice(s.as_bytes());
}

fn frame(first: u8, body: &[u8]) -> Vec<u8> {
    let mut out = vec![first];
    let mut n = body.len();
    loop {
        let mut d = (n % 128) as u8;
        n /= 128;
        if n > 0 {
            d |= 0x80;
        }
        out.push(d);
        if n == 0 {
            break;
        }
    }
    out.extend_from_slice(body);
    out
}

fn arg(op: &[u64], i: usize) -> u64 {
    op.get(i).copied().unwrap_or(0)
}

fn topic_name(i: u64) -> &'static str {
    match i {
        1 => "t1",
        2 => "t2",
        3 => "t3",
        4 => "a/#",
        _ => "",
    }
}

/// the topic filters of SUBSCRIBE / UNSUBSCRIBE template `i`: 1, 2 a single valid filter, 3 a single invalid
/// one, 4..6 lists of mixed validity (a valid filter before / after an invalid one)
fn filter_names(i: u64) -> &'static [&'static str] {
    match i {
        1 => &["a/b"],
        2 => &["a/+"],
        4 => &["a/b", "a/#/b"],
        5 => &["sport/tennis#", "a/+"],
        6 => &["a/+", "a/b", "#/x"],
        _ => &["a/#/b"],
    }
}

/// bytes of the packet described by `op` = [1, tpl, args..]
pub fn packet_bytes(op: &[u64], v5: bool) -> Vec<u8> {
    let id = |i: usize| (arg(op, i) as u16).to_be_bytes();
    match arg(op, 1) {
        1 => {
            let (qos, alias, retain, plen) = (arg(op, 2), arg(op, 5), arg(op, 6), arg(op, 7));
            let mut b = Vec::new();
            put_str(&mut b, topic_name(arg(op, 4)));
            if qos > 0 {
                b.extend_from_slice(&id(3));
            }
            if v5 {
                if alias != 0 {
                    b.push(3);
                    b.push(0x23);
                    b.extend_from_slice(&(alias as u16).to_be_bytes());
                } else {
                    b.push(0);
                }
            }
            for i in 0..plen {
                b.push(i as u8);
            }
            frame(0x30 | ((qos as u8) << 1) | (retain as u8 & 1), &b)
        }
        2 => frame(0x40, &id(2)),
        3 => frame(0x50, &id(2)),
        4 => frame(0x62, &id(2)),
        5 => frame(0x70, &id(2)),
        6 => {
            let mut b = id(2).to_vec();
            if v5 {
                b.push(0);
            }
            for f in filter_names(arg(op, 3)) {
                put_str(&mut b, f);
                b.push(1);
            }
            frame(0x82, &b)
        }
        7 => {
            let mut b = id(2).to_vec();
            if v5 {
                b.push(0);
            }
            for f in filter_names(arg(op, 3)) {
                put_str(&mut b, f);
            }
            frame(0xa2, &b)
        }
        8 => frame(0xc0, &[]),
        9 => {
            if !v5 || (arg(op, 2) == 0 && arg(op, 3) == 0) {
                frame(0xe0, &[])
            } else {
                let mut b = vec![arg(op, 2) as u8];
                if arg(op, 3) != 0 {
                    b.push(5);
                    b.push(0x11);
                    b.extend_from_slice(&(arg(op, 3) as u32).to_be_bytes());
                } else {
                    b.push(0);
                }
                frame(0xe0, &b)
            }
        }
        10 => frame(0xf0, &[]),
        11 => {
            let mut b = id(2).to_vec();
            if v5 {
                b.push(0);
            }
            b.push(0);
            frame(0x90, &b)
        }
        12 => {
            let mut b = id(2).to_vec();
            if v5 {
                b.push(0);
                b.push(0);
            }
            frame(0xb0, &b)
        }
        13 => frame(0xd0, &[]),
        14 => (if v5 { conn::V5_CONNECT } else { conn::V3_CONNECT }).to_vec(),
        _ => {
            if v5 {
                vec![0x20, 3, 0, 0, 0]
            } else {
                vec![0x20, 2, 0, 0]
            }
        }
    }
}

// ---------------------------------------------------------------- peer side decoding
fn split_frame(buf: &[u8]) -> Option<usize> {
    let mut len = 0usize;
    let mut shift = 0;
    let mut i = 1;
    loop {
        let b = *buf.get(i)?;
        len |= ((b & 0x7f) as usize) << shift;
        i += 1;
        if b & 0x80 == 0 {
            break;
        }
        shift += 7;
        if shift > 21 {
            return None;
        }
    }
    if buf.len() >= i + len { Some(i + len) } else { None }
}

fn describe3(fr: &[u8]) -> (u64, u64) {
    use v3::codec::{Decoded, Packet, SubscribeReturnCode};
    let codec = v3::codec::Codec::default();
    let mut b = BytesMut::from(fr);
    match codec.decode(&mut b) {
        Ok(Some(Decoded::Packet(p, _))) => match p {
            Packet::PublishAck { packet_id }
            | Packet::PublishReceived { packet_id }
            | Packet::PublishRelease { packet_id }
            | Packet::PublishComplete { packet_id }
            | Packet::UnsubscribeAck { packet_id } => (u64::from(packet_id.get()), 0),
            Packet::SubscribeAck { packet_id, status } => (
                u64::from(packet_id.get()),
                match status.first() {
                    Some(SubscribeReturnCode::Success(q)) => qos_num(*q),
                    Some(SubscribeReturnCode::Failure) => 0x80,
                    None => 0,
                },
            ),
            _ => (0, 0),
        },
        Ok(Some(Decoded::Publish(p, _, _))) => (p.packet_id.map_or(0, |i| u64::from(i.get())), 0),
        _ => (255, 255),
    }
}

fn describe5(fr: &[u8]) -> (u64, u64) {
    use v5::codec::{Decoded, Packet};
    let codec = v5::codec::Codec::default();
    let mut b = BytesMut::from(fr);
    match codec.decode(&mut b) {
        Ok(Some(Decoded::Packet(p, _))) => match p {
            Packet::PublishAck(a) | Packet::PublishReceived(a) => {
                (u64::from(a.packet_id.get()), a.reason_code as u64)
            }
            Packet::PublishRelease(a) | Packet::PublishComplete(a) => {
                (u64::from(a.packet_id.get()), a.reason_code as u64)
            }
            Packet::SubscribeAck(a) => {
                (u64::from(a.packet_id.get()), a.status.first().map_or(0, |s| *s as u64))
            }
            Packet::UnsubscribeAck(a) => {
                (u64::from(a.packet_id.get()), a.status.first().map_or(0, |s| *s as u64))
            }
            Packet::Disconnect(d) => (0, d.reason_code as u64),
            Packet::Auth(a) => (0, a.reason_code as u64),
            _ => (0, 0),
        },
        Ok(Some(Decoded::Publish(p, _, _))) => (p.packet_id.map_or(0, |i| u64::from(i.get())), 0),
        _ => (255, 255),
    }
}

struct Peer {
    io: IoTest,
    pending: Vec<u8>,
    v5: bool,
}

impl Peer {
    fn drain(&mut self, out: &mut Vec<u64>) {
        self.pending.extend_from_slice(&self.io.read_any());
        while !self.pending.is_empty() {
            let Some(n) = split_frame(&self.pending) else { break };
            let fr: Vec<u8> = self.pending.drain(..n).collect();
            let (id, reason) = if self.v5 { describe5(&fr) } else { describe3(&fr) };
            out.extend_from_slice(&[u64::from(fr[0]), id, reason]);
        }
    }
}

// ---------------------------------------------------------------- servers
async fn server3(cfgf: &[u64], log: SLog, hg: Gates<u64>, pg: Gates<u64>) -> IoTest {
    let mut cfg = MqttServiceConfig::new().set_max_qos(qos_of(arg(cfgf, 0)));
    cfg = cfg.set_max_receive(arg(cfgf, 3) as u16);
    let cfg = conn::shared_cfg("I3", cfg);

    let l1 = log.clone();
    let publish = fn_service(move |p: v3::Publish| {
        let h = {
            let mut l = l1.borrow_mut();
            let h = l.handlers.len() as u64 + 1;
            l.handlers.push([
                h,
                qos_num(p.qos()),
                p.id().map_or(0, |i| u64::from(i.get())),
                topic_idx(p.publish_topic()),
                p.payload_size() as u64,
                u64::from(p.retain()),
            ]);
            h
        };
        let g = hg.clone();
        async move {
            let res = g.wait(h).await;
            drop(p);
            if res == 0 { Ok(()) } else { Err(HErr(res as u8)) }
        }
    });
    let l2 = log.clone();
    let control = fn_service(move |c: Control<HErr>| {
        log_stop(&l2, &c);
        async move { Ok::<_, HErr>(None) }
    });
    let handshake = |h: v3::Handshake| async move { Ok::<_, HErr>(h.ack((), false)) };

    let peer = if arg(cfgf, 4) == 0 {
        let srv = v3::MqttServer::new(handshake).control(control).publish(publish);
        conn::start_server(srv, cfg).await
    } else {
        let l3 = log.clone();
        let proto = fn_service(move |m: v3::ProtocolMessage| {
            use v3::ProtocolMessage as M;
            let c = {
                let mut l = l3.borrow_mut();
                let c = l.protos.len() as u64 + 1;
                let kind = match &m {
                    M::PublishRelease(_) => 1,
                    M::Subscribe(_) => 2,
                    M::Unsubscribe(_) => 3,
                    M::Disconnect(_) => 4,
                    M::Ping(_) => 5,
                };
                l.protos.push([c, kind]);
                c
            };
            let g = pg.clone();
            async move {
                match g.wait(c).await {
                    0 => Ok(m.ack()),
                    2 => Ok(match m {
                        M::Subscribe(s) => s.ack(),
                        M::Unsubscribe(u) => u.ack(),
                        other => other.ack(),
                    }),
                    r => Err(HErr(r as u8)),
                }
            }
        });
        let srv =
            v3::MqttServer::new(handshake).protocol(proto).control(control).publish(publish);
        conn::start_server(srv, cfg).await
    };
    peer.write(conn::V3_CONNECT);
    settle().await;
    let _connack = peer.read_any();
    peer
}

async fn server5(cfgf: &[u64], log: SLog, hg: Gates<u64>, pg: Gates<u64>) -> IoTest {
    use ntex::service::ServiceFactory;
    let mut cfg = MqttServiceConfig::new().set_max_qos(qos_of(arg(cfgf, 0)));
    if arg(cfgf, 1) != 0 {
        cfg = cfg.set_max_receive(arg(cfgf, 1) as u16);
    }
    cfg = cfg.set_max_topic_alias(arg(cfgf, 2) as u16);
    if arg(cfgf, 6) != 0 {
        // publishes up to this QoS are still handed to the handler after the connection has been closed
        cfg = cfg.set_handle_qos_after_disconnect(Some(qos_of(arg(cfgf, 6) - 1)));
    }
    let cfg = conn::shared_cfg("I5", cfg);

    // the publish service is a v5::Router: resources "t1" and "t2" log the topic index of THEIR OWN resource
    // (1, 2), every other topic goes to the default service, which logs the index of the resolved topic:
    // with correct routing the log is the same as that of a plain publish service
    let mk = |fixed: Option<u64>| {
        let l1 = log.clone();
        let hg = hg.clone();
        fn_service(move |p: v5::Publish| {
            let h = {
                let mut l = l1.borrow_mut();
                let h = l.handlers.len() as u64 + 1;
                l.handlers.push([
                    h,
                    qos_num(p.qos()),
                    p.id().map_or(0, |i| u64::from(i.get())),
                    fixed.unwrap_or_else(|| topic_idx(p.publish_topic())),
                    p.payload_size() as u64,
                    u64::from(p.retain()),
                ]);
                h
            };
            let g = hg.clone();
            async move {
                let res = g.wait(h).await;
                if res == 0 { Ok(p.ack()) } else { Err(HErr(res as u8)) }
            }
        })
        .map_init_err(|()| HErr(0))
    };
    let publish = v5::Router::new(mk(None)).resource("t1", mk(Some(1))).resource("t2", mk(Some(2)));
    let l2 = log.clone();
    let control = fn_service(move |c: Control<HErr>| {
        log_stop(&l2, &c);
        async move { Ok::<_, HErr>(None) }
    });
    let handshake = |h: v5::Handshake| async move { Ok::<_, HErr>(h.ack(())) };

    let peer = if arg(cfgf, 4) == 0 {
        let srv = v5::MqttServer::new(handshake).control(control).publish(publish);
        conn::start_server(srv, cfg).await
    } else {
        let l3 = log.clone();
        let proto = fn_service(move |m: v5::ProtocolMessage| {
            use v5::ProtocolMessage as M;
            let c = {
                let mut l = l3.borrow_mut();
                let c = l.protos.len() as u64 + 1;
                let kind = match &m {
                    M::PublishRelease(_) => 1,
                    M::Subscribe(_) => 2,
                    M::Unsubscribe(_) => 3,
                    M::Disconnect(_) => 4,
                    M::Ping(_) => 5,
                    M::Auth(_) => 6,
                };
                l.protos.push([c, kind]);
                c
            };
            let g = pg.clone();
            async move {
                match g.wait(c).await {
                    0 | 2 => Ok(m.ack()),
                    r => Err(HErr(r as u8)),
                }
            }
        });
        let srv =
            v5::MqttServer::new(handshake).protocol(proto).control(control).publish(publish);
        conn::start_server(srv, cfg).await
    };
    if arg(cfgf, 5) != 0 {
        // CONNECT asking for Session Expiry Interval 60 (property 0x11): the session is not a zero-expiry one
        peer.write(b"\x10\x13\x00\x04MQTT\x05\x02\x00\x3c\x05\x11\x00\x00\x00\x3c\x00\x01c".as_slice());
    } else {
        peer.write(conn::V5_CONNECT);
    }
    settle().await;
    let _connack = peer.read_any();
    peer
}

pub async fn run_case(c: &Fields, v5: bool) -> Fields {
    let log: SLog = Rc::new(RefCell::new(Log::default()));
    let hg: Gates<u64> = Gates::new();
    let pg: Gates<u64> = Gates::new();
    let empty = Vec::new();
    let cfgf = c.first().unwrap_or(&empty);
    let io = if v5 {
        server5(cfgf, log.clone(), hg.clone(), pg.clone()).await
    } else {
        server3(cfgf, log.clone(), hg.clone(), pg.clone()).await
    };
    let mut peer = Peer { io, pending: Vec::new(), v5 };

    let mut obs = Fields::new();
    for op in c.iter().skip(1) {
        let mut held = false;
        match op.first() {
            Some(1) => peer.io.write(packet_bytes(op, v5)),
            Some(2) => hg.open(arg(op, 1), arg(op, 2)),
            Some(3) => pg.open(arg(op, 1), arg(op, 2)),
            // engines inb3b / inb5b: the packet is written and nothing runs before the next operation,
            // the frames of consecutive held operations reach the server in one read
            Some(4) if op.get(1) == Some(&1) => {
                peer.io.write(packet_bytes(&op[1..], v5));
                held = true;
            }
            _ => {}
        }
        if !held {
            settle().await;
        }
        let mut o = Vec::new();
        peer.drain(&mut o);
        o.push(254);
        {
            let mut l = log.borrow_mut();
            let from = l.hseen;
            for h in &l.handlers[from..] {
                o.extend_from_slice(h);
            }
            l.hseen = l.handlers.len();
            o.push(253);
            let from = l.pseen;
            for p in &l.protos[from..] {
                o.extend_from_slice(p);
            }
            l.pseen = l.protos.len();
            o.push(252);
            o.push(l.first_stop);
            o.push(l.stops);
        }
        o.push(u64::from(!(peer.io.is_closed() || peer.io.is_server_dropped())));
        obs.push(o);
    }
    // end of case: the peer goes away, let the server finish
    drop(peer);
    settle().await;
    obs
}

/// all cases of the input on single-threaded ntex runtimes; a panic escaping into the runtime ends
/// the case with `9999` and the remaining cases run on a fresh runtime
pub fn run_lines(v5: bool, lines: Vec<String>) -> Vec<String> {
    use std::panic::{AssertUnwindSafe, catch_unwind};
    let lines: Vec<String> = lines.into_iter().filter(|l| !l.starts_with('#')).collect();
    let results: Rc<RefCell<Vec<String>>> = Rc::new(RefCell::new(Vec::new()));
    while results.borrow().len() < lines.len() {
        let start = results.borrow().len();
        let rest: Vec<String> = lines[start..].to_vec();
        let r2 = results.clone();
        let res = catch_unwind(AssertUnwindSafe(|| {
            crate::rt::block_on(async move {
                for line in rest {
                    let case = crate::parse_line(&line);
                    let obs = run_case(&case, v5).await;
                    r2.borrow_mut().push(crate::show_line(&obs));
                }
            });
        }));
        if res.is_err() {
            results.borrow_mut().push("9999".to_string());
        }
    }
    let out = results.borrow().clone();
    out
}

// ================================================================== client roles
// (continued) engines "cli3" / "cli5": inbound logic of a real v3 / v5 CLIENT; the harness plays the
// server (raw bytes) and the application.
//
// case: field 0 = configuration
//     max_receive (v3: in-flight limit of the client dispatcher, v5: receive maximum announced in
//     CONNECT; 0 = library default), route (1 = ClientRouter with resources "t1","t2" handled by
//     the gated publish handler and `start(service)`: no Stop notifications observable;
//     0 = Client::start_with_control(service, control): every PUBLISH goes to the protocol service)
//   operations as for the servers (1 = the peer writes a packet, 2 = handler completes,
//     3 = protocol service completes: 0 = msg.ack(), 1 = error, 2 = typed ack (v5 Publish: ack(Success)))
// observation: as for the servers; protocol-service kinds: 1 PublishRelease 4 Disconnect 5 Ping 7 Publish;
//   a Publish protocol message (c, 7) also logs its fields as a "handler invocation" with h = 1000 + c
pub const V3_CONNACK: &[u8] = b"\x20\x02\x00\x00";
pub const V5_CONNACK: &[u8] = b"\x20\x03\x00\x00\x00";

async fn client3(cfgf: &[u64], log: SLog, hg: Gates<u64>, pg: Gates<u64>) -> IoTest {
    use ntex::service::ServiceFactory;
    use ntex_io::Io;
    let mut cfg = MqttServiceConfig::new();
    if arg(cfgf, 0) != 0 {
        cfg = cfg.set_max_receive(arg(cfgf, 0) as u16);
    }
    let cfg = conn::shared_cfg("C3", cfg);
    let (peer, side) = IoTest::create();
    peer.remote_buffer_cap(1 << 20);
    let slot = Rc::new(RefCell::new(Some(side)));
    let cfg2 = cfg.clone();
    let connector = v3::client::MqttConnector::<String, _>::new().connector(fn_service(
        move |_: ntex::connect::Connect<String>| {
            let io = slot.borrow_mut().take().expect("one connection");
            let cfg = cfg2.clone();
            async move { Ok::<_, ntex::connect::ConnectError>(Io::new(io, cfg)) }
        },
    ));
    let svc = ntex::service::Pipeline::new(connector.create(cfg).await.expect("connector"));
    let route = arg(cfgf, 1) == 1;
    ntex::rt::spawn(async move {
        let req = v3::client::Connect::new("peer".to_string())
            .client_id("c")
            .keep_alive(ntex::time::Seconds(0));
        let Ok(client) = svc.call(req).await else { return };
        let l3 = log.clone();
        let proto = fn_service(move |m: v3::client::control::ProtocolMessage| {
            use v3::client::control::ProtocolMessage as M;
            let c = {
                let mut l = l3.borrow_mut();
                let c = l.protos.len() as u64 + 1;
                let kind = match &m {
                    M::PublishRelease(_) => 1,
                    M::Ping(_) => 5,
                    M::Publish(p) => {
                        let pk = p.packet();
                        l.handlers.push([
                            1000 + c,
                            qos_num(pk.qos),
                            pk.packet_id.map_or(0, |i| u64::from(i.get())),
                            topic_idx(&pk.topic),
                            p.payload_size() as u64,
                            u64::from(pk.retain),
                        ]);
                        7
                    }
                };
                l.protos.push([c, kind]);
                c
            };
            let g = pg.clone();
            async move {
                match g.wait(c).await {
                    0 | 2 => Ok(m.ack()),
                    r => Err(HErr(r as u8)),
                }
            }
        });
        if route {
            // each resource logs the topic index of ITS OWN resource (1, 2): a publish routed to the wrong resource shows
            let mk = |log: SLog, hg: Gates<u64>, fixed: u64| {
                fn_service(move |p: v3::Publish| {
                    let h = {
                        let mut l = log.borrow_mut();
                        let h = l.handlers.iter().filter(|e| e[0] < 1000).count() as u64 + 1;
                        l.handlers.push([
                            h,
                            qos_num(p.qos()),
                            p.id().map_or(0, |i| u64::from(i.get())),
                            fixed,
                            p.payload_size() as u64,
                            u64::from(p.retain()),
                        ]);
                        h
                    };
                    let g = hg.clone();
                    async move {
                        let res = g.wait(h).await;
                        drop(p);
                        if res == 0 { Ok(()) } else { Err(HErr(res as u8)) }
                    }
                })
            };
            let _ = client
                .resource("t1", mk(log.clone(), hg.clone(), 1))
                .resource("t2", mk(log.clone(), hg.clone(), 2))
                .start(proto)
                .await;
        } else {
            let l2 = log.clone();
            let control = fn_service(move |c: Control<HErr>| {
                log_stop(&l2, &c);
                async move { Ok::<_, HErr>(None) }
            });
            let _ = client.start_with_control(proto, control).await;
        }
    });
    settle().await;
    let _connect = peer.read_any();
    peer.write(V3_CONNACK);
    settle().await;
    peer
}

async fn client5(cfgf: &[u64], log: SLog, hg: Gates<u64>, pg: Gates<u64>) -> IoTest {
    use ntex::service::ServiceFactory;
    use ntex_io::Io;
    let cfg = conn::shared_cfg("C5", MqttServiceConfig::new());
    let (peer, side) = IoTest::create();
    peer.remote_buffer_cap(1 << 20);
    let slot = Rc::new(RefCell::new(Some(side)));
    let cfg2 = cfg.clone();
    let connector = v5::client::MqttConnector::<String, _>::new().connector(fn_service(
        move |_: ntex::connect::Connect<String>| {
            let io = slot.borrow_mut().take().expect("one connection");
            let cfg = cfg2.clone();
            async move { Ok::<_, ntex::connect::ConnectError>(Io::new(io, cfg)) }
        },
    ));
    let svc = ntex::service::Pipeline::new(connector.create(cfg).await.expect("connector"));
    let route = arg(cfgf, 1) == 1;
    let rmax = arg(cfgf, 0) as u16;
    ntex::rt::spawn(async move {
        let mut req = v5::client::Connect::new("peer".to_string())
            .client_id("c")
            .keep_alive(ntex::time::Seconds(0));
        if rmax != 0 {
            req = req.max_receive(rmax);
        }
        let Ok(client) = svc.call(req).await else { return };
        let l3 = log.clone();
        let proto = fn_service(move |m: v5::client::control::ProtocolMessage| {
            use v5::client::control::ProtocolMessage as M;
            let c = {
                let mut l = l3.borrow_mut();
                let c = l.protos.len() as u64 + 1;
                let kind = match &m {
                    M::PublishRelease(_) => 1,
                    M::Disconnect(_) => 4,
                    M::Ping(_) => 5,
                    M::Publish(p) => {
                        let pk = p.packet();
                        l.handlers.push([
                            1000 + c,
                            qos_num(pk.qos),
                            pk.packet_id.map_or(0, |i| u64::from(i.get())),
                            topic_idx(&pk.topic),
                            p.payload_size() as u64,
                            u64::from(pk.retain),
                        ]);
                        7
                    }
                };
                l.protos.push([c, kind]);
                c
            };
            let g = pg.clone();
            async move {
                match g.wait(c).await {
                    0 => Ok(m.ack()),
                    2 => Ok(match m {
                        M::Publish(p) => p.ack(v5::codec::PublishAckReason::Success),
                        other => other.ack(),
                    }),
                    r => Err(HErr(r as u8)),
                }
            }
        });
        if route {
            // each resource logs the topic index of ITS OWN resource (1, 2): a publish routed to the wrong resource shows
            let mk = |log: SLog, hg: Gates<u64>, fixed: u64| {
                fn_service(move |p: v5::Publish| {
                    let h = {
                        let mut l = log.borrow_mut();
                        let h = l.handlers.iter().filter(|e| e[0] < 1000).count() as u64 + 1;
                        l.handlers.push([
                            h,
                            qos_num(p.qos()),
                            p.id().map_or(0, |i| u64::from(i.get())),
                            fixed,
                            p.payload_size() as u64,
                            u64::from(p.retain()),
                        ]);
                        h
                    };
                    let g = hg.clone();
                    async move {
                        let res = g.wait(h).await;
                        if res == 0 { Ok(p.ack()) } else { Err(HErr(res as u8)) }
                    }
                })
            };
            let _ = client
                .resource("t1", mk(log.clone(), hg.clone(), 1))
                .resource("t2", mk(log.clone(), hg.clone(), 2))
                .start(proto)
                .await;
        } else {
            let l2 = log.clone();
            let control = fn_service(move |c: Control<HErr>| {
                log_stop(&l2, &c);
                async move { Ok::<_, HErr>(None) }
            });
            let _ = client.start_with_control(proto, control).await;
        }
    });
    settle().await;
    let _connect = peer.read_any();
    peer.write(V5_CONNACK);
    settle().await;
    peer
}

pub async fn run_client_case(c: &Fields, v5: bool) -> Fields {
    let log: SLog = Rc::new(RefCell::new(Log::default()));
    let hg: Gates<u64> = Gates::new();
    let pg: Gates<u64> = Gates::new();
    let empty = Vec::new();
    let cfgf = c.first().unwrap_or(&empty);
    let io = if v5 {
        client5(cfgf, log.clone(), hg.clone(), pg.clone()).await
    } else {
        client3(cfgf, log.clone(), hg.clone(), pg.clone()).await
    };
    let mut peer = Peer { io, pending: Vec::new(), v5 };
    let mut obs = Fields::new();
    for op in c.iter().skip(1) {
        match op.first() {
            Some(1) => peer.io.write(packet_bytes(op, v5)),
            Some(2) => hg.open(arg(op, 1), arg(op, 2)),
            Some(3) => pg.open(arg(op, 1), arg(op, 2)),
            _ => {}
        }
        settle().await;
        let mut o = Vec::new();
        peer.drain(&mut o);
        o.push(254);
        {
            let mut l = log.borrow_mut();
            let from = l.hseen;
            for h in &l.handlers[from..] {
                o.extend_from_slice(h);
            }
            l.hseen = l.handlers.len();
            o.push(253);
            let from = l.pseen;
            for p in &l.protos[from..] {
                o.extend_from_slice(p);
            }
            l.pseen = l.protos.len();
            o.push(252);
            o.push(l.first_stop);
            o.push(l.stops);
        }
        o.push(u64::from(!(peer.io.is_closed() || peer.io.is_server_dropped())));
        obs.push(o);
    }
    drop(peer);
    settle().await;
    obs
}

pub fn run_client_lines(v5: bool, lines: Vec<String>) -> Vec<String> {
    use std::panic::{AssertUnwindSafe, catch_unwind};
    let lines: Vec<String> = lines.into_iter().filter(|l| !l.starts_with('#')).collect();
    let results: Rc<RefCell<Vec<String>>> = Rc::new(RefCell::new(Vec::new()));
    while results.borrow().len() < lines.len() {
        let start = results.borrow().len();
        let rest: Vec<String> = lines[start..].to_vec();
        let r2 = results.clone();
        let res = catch_unwind(AssertUnwindSafe(|| {
            crate::rt::block_on(async move {
                for line in rest {
                    let case = crate::parse_line(&line);
                    let obs = run_client_case(&case, v5).await;
                    r2.borrow_mut().push(crate::show_line(&obs));
                }
            });
        }));
        if res.is_err() {
            results.borrow_mut().push("9999".to_string());
        }
    }
    let out = results.borrow().clone();
    out
}
