//! engine "iostate" (number 36): the connection life-cycle state machine and the timer flag machine of
//! io::Dispatcher (properties C07, C20), driven through the cfg(ntex_mqtt_verif) dispatcher hook with a
//! fixed-length frame codec over ntex_io::testing::IoTest.  No real time passes in a case: timer
//! expiry is injected with `IoRef::notify_timeout()` (what the ntex-io timer wheel calls on expiry).
//!
//! case: field 0 = configuration
//!   ka, frame_len, ctl_mode, sd_gated, rr_timeout, rr_max, rr_rate, -, -, -, small_wbuf
//!     ka         keep-alive seconds handed to the dispatcher (0 = disabled)
//!     frame_len  a frame is `frame_len` bytes (0 is read as 1); the first byte is the request id;
//!                a frame starting with byte 255 is a decoder error; frame_len 200 = header [id, n]
//!                (consumed as soon as complete, like the MQTT codecs) followed by n payload bytes
//!     ctl_mode   0 = the control service's Stop call is gated (op 5), 1 = answers Ok(None) at once
//!     sd_gated   1 = the request service's shutdown() is gated (op 11)
//!     rr_*       IoConfig::set_frame_read_rate(timeout, max_timeout, rate) if rr_timeout != 0
//!     small_wbuf 1 = IoConfig::set_write_buf(1024, 256, 16): write back-pressure at 1024 buffered bytes
//! then one field per operation
//!   1,b,...      peer writes the bytes in one write; a request id < 200 has a gated handler;
//!                ids 200..=204 answer at once: Some / None / Err(Service) / Err(Protocol) / unencodable
//!   2,id,res,... the gated handlers of the listed requests complete: res 0 = Some([id]), 1 = None,
//!                2 = Err(Service), 3 = Err(Protocol), 4 = Some(item the encoder refuses),
//!                5 = Some(id followed by 1099 filler bytes 250)
//!   3            peer closes (the peer IoTest end is dropped)
//!   4            peer read error
//!   5,res        the pending Stop control call completes: 0 = Ok(None), 1 = Err, 2 = Ok(Some([238]))
//!   6            local graceful close through a cloned IoRef
//!   7            local terminate through a cloned IoRef
//!   8,mode[,1]   request service readiness: 0 = ready, 1 = Err(Service), 2 = Err(Protocol), 3 = not ready;
//!                with the third number the dispatcher is not woken (it notices at its next poll)
//!   9            timer expiry (IoRef::notify_timeout)
//!   10,mode      control service readiness: 0 = ready, 1 = Err
//!   11           the request service's shutdown completes
//!   12,c         the peer accepts no bytes (c = 0) / accepts bytes again (c = 1)
//!   13,id,res    the gate of request id opens AND a timer expiry is flagged before the dispatcher runs
//! observation: one field per operation
//!   finished (0 running, 1 Ok, 2 Err), handlers still pending, timer (remaining seconds rounded to
//!   tens, 0 = not armed), n = number of control messages so far, n codes (1d Stop(Protocol) with
//!   d = 1 decode, 2 encode, 3 violation, 4 keep-alive timeout, 5 read timeout; 20 Stop(Error);
//!   30/31 Stop(PeerGone) without/with io error; 40 Wr(true); 50 Wr(false)), then all bytes the peer
//!   has received: first the number of filler bytes (250), then the other bytes
use std::cell::{Cell, RefCell};
use std::rc::Rc;
use std::task::{Poll, Waker};

use ntex::service::{Service, ServiceCtx, cfg::SharedCfg};
use ntex::util::{Bytes, BytesMut};
use ntex_bytes::BytePages;
use ntex_codec::{Decoder, Encoder};
use ntex_io::{Io, IoBoxed, IoConfig, testing::IoTest};
use ntex_mqtt::error::{DecodeError, DispatcherError, EncodeError, ProtocolError};
use ntex_mqtt::{Control, Reason, verif_hooks};
use ntex_util::time::Seconds;

use crate::rt::{Gates, settle};
use crate::Fields;

#[derive(Clone, Debug)]
pub struct FrameCodec(pub usize, pub Rc<Cell<Option<(u8, usize)>>>);

impl FrameCodec {
    pub fn new(len: usize) -> Self {
        FrameCodec(len, Rc::new(Cell::new(None)))
    }
}

impl Encoder for FrameCodec {
    type Item = Bytes;
    type Error = EncodeError;
    fn encodev(&self, item: Bytes, dst: &mut BytePages) -> Result<(), EncodeError> {
        if item.first() == Some(&254) {
            return Err(EncodeError::MalformedPacket);
        }
        dst.append(item);
        Ok(())
    }
}

impl Decoder for FrameCodec {
    type Item = Bytes;
    type Error = DecodeError;
    fn decode(&self, src: &mut BytesMut) -> Result<Option<Bytes>, DecodeError> {
        if self.0 == 200 {
            // like the MQTT codecs: the fixed header [id, n] is consumed as soon as it is complete,
            // then the decoder waits for n payload bytes
            loop {
                match self.1.get() {
                    None => {
                        if src.is_empty() {
                            return Ok(None);
                        } else if src[0] == 255 {
                            return Err(DecodeError::MalformedPacket);
                        } else if src.len() < 2 {
                            return Ok(None);
                        }
                        let hdr = src.split_to(2);
                        self.1.set(Some((hdr[0], hdr[1] as usize)));
                    }
                    Some((id, n)) => {
                        if src.len() < n {
                            return Ok(None);
                        }
                        let _ = src.split_to(n);
                        self.1.set(None);
                        return Ok(Some(Bytes::from(vec![id])));
                    }
                }
            }
        }
        if src.is_empty() {
            Ok(None)
        } else if src[0] == 255 {
            Err(DecodeError::MalformedPacket)
        } else if src.len() >= self.0 {
            Ok(Some(src.split_to(self.0)))
        } else {
            Ok(None)
        }
    }
}

pub struct Env {
    pub gates: Gates<u64>,
    pub pending: Cell<i64>,
    pub ready_mode: Cell<u64>,
    pub ready_waker: RefCell<Option<Waker>>,
    pub disp_waker: RefCell<Option<Waker>>,
    pub ctl_log: RefCell<Vec<u64>>,
    pub ctl_gate: Gates<u64>,
    pub ctl_mode: u64,
    pub ctl_ready_mode: Cell<u64>,
    pub sd_gated: bool,
    pub sd_gate: Gates<u64>,
}

impl Env {
    pub fn new(ctl_mode: u64, sd_gated: bool) -> Rc<Env> {
        Rc::new(Env {
            gates: Gates::new(),
            pending: Cell::new(0),
            ready_mode: Cell::new(0),
            ready_waker: RefCell::new(None),
            disp_waker: RefCell::new(None),
            ctl_log: RefCell::new(Vec::new()),
            ctl_gate: Gates::new(),
            ctl_mode,
            ctl_ready_mode: Cell::new(0),
            sd_gated,
            sd_gate: Gates::new(),
        })
    }
}

struct PendingGuard(Rc<Env>);
impl Drop for PendingGuard {
    fn drop(&mut self) {
        self.0.pending.set(self.0.pending.get() - 1);
    }
}

pub struct ReqSrv(pub Rc<Env>);

fn answer(id: u8, res: u64) -> Result<Option<Bytes>, DispatcherError<()>> {
    match res {
        0 => Ok(Some(Bytes::from(vec![id]))),
        1 => Ok(None),
        2 => Err(DispatcherError::Service(())),
        3 => Err(DispatcherError::Protocol(ProtocolError::ReadTimeout)),
        5 => {
            let mut v = vec![250u8; 1100];
            v[0] = id;
            Ok(Some(Bytes::from(v)))
        }
        _ => Ok(Some(Bytes::from(vec![254u8]))),
    }
}

impl Service<Bytes> for ReqSrv {
    type Response = Option<Bytes>;
    type Error = DispatcherError<()>;

    async fn ready(&self, _: ServiceCtx<'_, Self>) -> Result<(), Self::Error> {
        let env = self.0.clone();
        std::future::poll_fn(move |cx| match env.ready_mode.get() {
            0 => Poll::Ready(Ok(())),
            1 => Poll::Ready(Err(DispatcherError::Service(()))),
            2 => Poll::Ready(Err(DispatcherError::Protocol(ProtocolError::ReadTimeout))),
            _ => {
                *env.ready_waker.borrow_mut() = Some(cx.waker().clone());
                Poll::Pending
            }
        })
        .await
    }

    async fn call(&self, req: Bytes, _: ServiceCtx<'_, Self>) -> Result<Option<Bytes>, Self::Error> {
        let id = req[0];
        if id >= 200 {
            return answer(id, u64::from(id) - 200);
        }
        self.0.pending.set(self.0.pending.get() + 1);
        let _guard = PendingGuard(self.0.clone());
        let res = self.0.gates.wait(u64::from(id)).await;
        answer(id, res)
    }

    async fn shutdown(&self) {
        if self.0.sd_gated {
            self.0.sd_gate.wait(0).await;
        }
    }
}

pub struct CtlSrv(pub Rc<Env>);

impl Service<Control<()>> for CtlSrv {
    type Response = Option<Bytes>;
    type Error = ();

    async fn ready(&self, _: ServiceCtx<'_, Self>) -> Result<(), ()> {
        if self.0.ctl_ready_mode.get() == 1 { Err(()) } else { Ok(()) }
    }

    async fn call(&self, msg: Control<()>, _: ServiceCtx<'_, Self>) -> Result<Option<Bytes>, ()> {
        let (kind, detail) = match &msg {
            Control::Stop(Reason::Protocol(e)) => (
                1,
                match e.get_ref() {
                    ProtocolError::Decode(_) => 1,
                    ProtocolError::Encode(_) => 2,
                    ProtocolError::ProtocolViolation(_) => 3,
                    ProtocolError::KeepAliveTimeout => 4,
                    ProtocolError::ReadTimeout => 5,
                },
            ),
            Control::Stop(Reason::Error(_)) => (2, 0),
            Control::Stop(Reason::PeerGone(e)) => (3, u64::from(e.err().is_some())),
            Control::WrBackpressure(w) => (if w.enabled() { 4 } else { 5 }, 0),
        };
        self.0.ctl_log.borrow_mut().push(kind * 10 + detail);
        if kind <= 3 && self.0.ctl_mode == 0 {
            match self.0.ctl_gate.wait(0).await {
                0 => Ok(None),
                1 => Err(()),
                _ => Ok(Some(Bytes::from(vec![238u8]))),
            }
        } else {
            Ok(None)
        }
    }
}

pub fn io_cfg(tag: &'static str, rr: (u64, u64, u64), small_wbuf: bool) -> SharedCfg {
    let mut cfg = IoConfig::new();
    if small_wbuf {
        cfg = cfg.set_write_buf(1024, 256, 16);
    }
    if rr.0 != 0 {
        cfg = cfg.set_frame_read_rate(Seconds(rr.0 as u16), Seconds(rr.1 as u16), rr.2 as u32);
    }
    SharedCfg::new(tag).add(cfg).into()
}

/// polls the wrapped future under catch_unwind
pub struct CatchPanic<F>(pub std::pin::Pin<Box<F>>);

impl<F: Future> Future for CatchPanic<F> {
    type Output = Option<F::Output>;
    fn poll(mut self: std::pin::Pin<&mut Self>, cx: &mut std::task::Context<'_>) -> Poll<Self::Output> {
        let inner = &mut self.0;
        match std::panic::catch_unwind(std::panic::AssertUnwindSafe(|| inner.as_mut().poll(cx))) {
            Ok(Poll::Ready(v)) => Poll::Ready(Some(v)),
            Ok(Poll::Pending) => Poll::Pending,
            Err(_) => Poll::Ready(None),
        }
    }
}

/// one running scenario: the dispatcher over an in-memory transport plus the harness' handles on it
pub struct Scn {
    env: Rc<Env>,
    client: Option<IoTest>,
    reader: IoTest,
    ioref: ntex_io::IoRef,
    finished: Rc<Cell<u64>>,
    kill: Gates<u64>,
    handle: Option<ntex::rt::JoinHandle<()>>,
    seen: Vec<u8>,
}

impl Scn {
    pub async fn start(cfg: &[u64]) -> Scn {
        let g = |i: usize| cfg.get(i).copied().unwrap_or(0);
        let ka = g(0);
        let frame_len = g(1).max(1) as usize;
        let env = Env::new(g(2), g(3) == 1);

        let (client, server) = IoTest::create();
        client.remote_buffer_cap(1 << 20);
        let reader = client.clone();
        let io = Io::new(server, io_cfg("IS", (g(4), g(5), g(6)), g(10) == 1));
        let ioref = io.get_ref();
        let io: IoBoxed = io.into();

        let disp = verif_hooks::dispatcher(
            io,
            FrameCodec::new(frame_len),
            ReqSrv(env.clone()),
            CtlSrv(env.clone()),
            Seconds(ka as u16),
        );
        let finished = Rc::new(Cell::new(0u64));
        let f2 = finished.clone();
        let e2 = env.clone();
        let kill: Gates<u64> = Gates::new();
        let k2 = kill.clone();
        let handle = ntex::rt::spawn(async move {
            let run = async move {
                // a panic inside Dispatcher::poll is contained here: observation 9999
                let mut guarded = CatchPanic(Box::pin(disp));
                let e3 = e2.clone();
                // remember the dispatcher task's waker at every poll: the harness can then make the
                // dispatcher poll again in any state
                let polled = std::future::poll_fn(move |cx| {
                    *e3.disp_waker.borrow_mut() = Some(cx.waker().clone());
                    std::pin::Pin::new(&mut guarded).poll(cx)
                });
                match polled.await {
                    Some(r) => f2.set(if r.is_ok() { 1 } else { 2 }),
                    None => f2.set(9999),
                }
            };
            let _ = ntex_util::future::select(Box::pin(run), Box::pin(k2.wait(0))).await;
        });
        settle().await;
        Scn { env, client: Some(client), reader, ioref, finished, kill, handle: Some(handle), seen: Vec::new() }
    }

    pub fn apply(&mut self, op: &[u64]) {
        let env = &self.env;
        match op.first() {
            Some(1) => {
                if let Some(cl) = &self.client {
                    cl.write(op[1..].iter().map(|b| *b as u8).collect::<Vec<u8>>());
                }
            }
            Some(2) => {
                for pair in op[1..].chunks(2) {
                    if pair.len() == 2 {
                        env.gates.open(pair[0], pair[1]);
                    }
                }
            }
            Some(3) => drop(self.client.take()),
            Some(4) => {
                if let Some(cl) = &self.client {
                    cl.read_error(std::io::Error::other("verif"));
                }
            }
            Some(5) => env.ctl_gate.open(0, op.get(1).copied().unwrap_or(0)),
            Some(6) => self.ioref.close(),
            Some(7) => self.ioref.terminate(),
            Some(8) => {
                env.ready_mode.set(op.get(1).copied().unwrap_or(0));
                if op.len() < 3 {
                    if let Some(w) = env.ready_waker.borrow_mut().take() {
                        w.wake();
                    }
                    if let Some(w) = env.disp_waker.borrow().clone() {
                        w.wake();
                    }
                }
            }
            Some(9) => {
                self.ioref.notify_timeout();
                if let Some(w) = env.disp_waker.borrow().clone() {
                    w.wake();
                }
            }
            Some(10) => {
                env.ctl_ready_mode.set(op.get(1).copied().unwrap_or(0));
                if let Some(w) = env.disp_waker.borrow().clone() {
                    w.wake();
                }
            }
            Some(11) => env.sd_gate.open(0, 0),
            Some(12) => {
                if let Some(cl) = &self.client {
                    cl.remote_buffer_cap(if op.get(1).copied().unwrap_or(0) == 0 { 0 } else { 1 << 20 });
                }
            }
            Some(13) => {
                // the gate of a handler opens and a timer expiry is flagged before anybody runs
                self.ioref.notify_timeout();
                env.gates.open(op[1], op[2]);
            }
            _ => {}
        }
    }

    pub fn observe(&mut self, with_timer: bool) -> Vec<u64> {
        self.seen.extend_from_slice(&self.reader.read_any());
        let log = self.env.ctl_log.borrow();
        let mut f = vec![self.finished.get(), self.env.pending.get().max(0) as u64];
        if with_timer {
            let th = self.ioref.timer_handle();
            f.push(if th.is_set() { (u64::from(th.remains().0) + 5) / 10 * 10 } else { 0 });
        }
        f.push(log.len() as u64);
        f.extend_from_slice(&log);
        f.push(self.seen.iter().filter(|b| **b == 250).count() as u64);
        f.extend(self.seen.iter().filter(|b| **b != 250).map(|b| u64::from(*b)));
        f
    }

    pub fn panicked(&self) -> bool {
        self.finished.get() == 9999
    }

    pub async fn finish(mut self) {
        self.kill.open(0, 0);
        drop(self.client.take());
        settle().await;
        drop(self.handle.take());
    }
}

pub async fn run_case(c: &Fields) -> Fields {
    let cfg = c.first().cloned().unwrap_or_default();
    let mut scn = Scn::start(&cfg).await;
    let mut obs = Fields::new();
    for op in c.iter().skip(1) {
        scn.apply(op);
        settle().await;
        obs.push(scn.observe(true));
    }
    let panicked = scn.panicked();
    scn.finish().await;
    if panicked { vec![vec![9999]] } else { obs }
}

/// all cases of the input on single-threaded ntex runtimes; a panic escaping into the runtime ends
/// the case with `9999` and the remaining cases run on a fresh runtime
pub fn run_lines(lines: Vec<String>) -> Vec<String> {
    use std::panic::{AssertUnwindSafe, catch_unwind};
    let lines: Vec<String> = lines.into_iter().filter(|l| !l.starts_with('#')).collect();
    let results: Rc<RefCell<Vec<String>>> = Rc::new(RefCell::new(Vec::new()));
    while results.borrow().len() < lines.len() {
        let start = results.borrow().len();
        let rest: Vec<String> = lines[start..].to_vec();
        let r2 = results.clone();
        let res = catch_unwind(AssertUnwindSafe(|| {
            crate::rt::block_on(async move {
                for line in rest {
                    let case = crate::parse_line(&line);
                    let obs = run_case(&case).await;
                    r2.borrow_mut().push(crate::show_line(&obs));
                }
            });
        }));
        if res.is_err() {
            results.borrow_mut().push("9999".to_string());
        }
    }
    let out = results.borrow().clone();
    out
}
