//! engine "topic": fields [filter; topic-or-second-filter] (valid UTF-8 bytes)
use std::convert::TryFrom;

use ntex_bytes::ByteString;
use ntex_mqtt::{TopicFilter, TopicFilterError, TopicFilterLevel};

use crate::{Fields, bytes_of, nums_of};

fn enc_level(l: &TopicFilterLevel, out: &mut Vec<u64>) {
    match l {
        TopicFilterLevel::Normal(s) => {
            out.push(1);
            out.push(s.len() as u64);
            out.extend(nums_of(s.as_bytes()));
        }
        TopicFilterLevel::System(s) => {
            out.push(2);
            out.push(s.len() as u64);
            out.extend(nums_of(s.as_bytes()));
        }
        TopicFilterLevel::Blank => out.push(3),
        TopicFilterLevel::SingleWildcard => out.push(4),
        TopicFilterLevel::MultiWildcard => out.push(5),
    }
}

pub fn run(c: &Fields) -> Fields {
    if c.len() != 2 {
        return vec![vec![99]];
    }
    let f = String::from_utf8(bytes_of(&c[0])).expect("utf8 filter");
    let t = String::from_utf8(bytes_of(&c[1])).expect("utf8 topic");
    let valid = u64::from(ntex_mqtt::verif_hooks::topic_is_valid(&f));
    match TopicFilter::try_from(ByteString::from(f.as_str())) {
        Ok(flt) => {
            let mut levels = Vec::new();
            for l in flt.levels() {
                enc_level(l, &mut levels);
            }
            let disp = flt.to_string();
            let mt = u64::from(flt.matches_topic(t.as_str()));
            let mf = match TopicFilter::try_from(ByteString::from(t.as_str())) {
                Ok(g) => u64::from(flt.matches_filter(&g)),
                Err(_) => 2,
            };
            vec![vec![valid, 0], levels, nums_of(disp.as_bytes()), vec![mt], vec![mf]]
        }
        Err(TopicFilterError::InvalidTopic) => vec![vec![valid, 1]],
        Err(TopicFilterError::InvalidLevel) => vec![vec![valid, 2]],
    }
}
