//! engine "limiter" (number 35): the inbound in-flight limiter `inflight::InFlightServiceImpl`
//! (property C12), driven the way io.rs drives it: one `PipelineBinding`, `poll_ready` with the
//! dispatcher's waker, `call_nowait(frame)` for every decoded frame, handlers that finish later.
//! Everything is hand polled; no runtime is needed (LocalWaker, join, Pipeline are runtime free).
//!
//! case: first field `max_cap,max_size` (InFlightServiceImpl::new(max_cap as u16, max_size, ..)),
//! then one field per operation
//!   1            the dispatcher polls readiness (PipelineBinding::poll_ready with the flag waker)
//!   2,kind,size  a frame is handed to the service (call_nowait, polled once): kind 0 = other packet,
//!                1 = PUBLISH with complete payload, 2 = PUBLISH with streamed payload (is_publish),
//!                3 = payload chunk, more follow (is_chunk), 4 = final payload chunk; size = size()
//!   3,k          the handler of the k-th running call (0-based, oldest first) finishes
//!   4,kind,size  a frame is handed to the service but its future is only created (call_nowait), as
//!                io.rs does when it `spawn`s the call because an earlier response is outstanding
//!   5,j          the j-th created-but-unpolled call future is polled for the first time
//! A first poll (op 2 or 5) while the last poll_ready answered Pending is outside the modelled domain
//! (the call would park in WaitersRef::run; io.rs never does it): the whole case answers `9998`.
//! observation: one field per operation `may_call,woken,running,submitted`
//!   may_call  1 after a poll that answered Ready(Ok), 0 after a poll that answered Pending and after
//!             a call, unchanged by a completion (bookkeeping of the reading rule)
//!   woken     the dispatcher's waker has been woken since the last poll_ready (reset when it polls)
//!   running   number of calls whose future has been polled and has not completed
//!   submitted number of call futures created and not polled yet
use std::future::Future;
use std::pin::Pin;
use std::sync::Arc;
use std::sync::atomic::{AtomicBool, Ordering};
use std::task::{Context, Poll, Wake, Waker};

use ntex_mqtt::SizedRequest;
use ntex_mqtt::verif_hooks::InFlightServiceImpl;
use ntex_service::{Pipeline, PipelineBinding, Service, ServiceCtx};

use crate::Fields;
use crate::rt::{Gates, poll_once};

struct Req {
    kind: u64,
    size: u32,
    id: u64,
}

impl SizedRequest for Req {
    fn size(&self) -> u32 {
        self.size
    }
    fn is_publish(&self) -> bool {
        self.kind == 2
    }
    fn is_chunk(&self) -> bool {
        self.kind == 3
    }
}

/// the wrapped service: always ready, a call finishes when its gate is opened
struct Gated {
    gates: Gates<u64>,
}

impl Service<Req> for Gated {
    type Response = ();
    type Error = ();

    async fn call(&self, req: Req, _: ServiceCtx<'_, Self>) -> Result<(), ()> {
        self.gates.wait(req.id).await;
        Ok(())
    }
}

struct Flag(AtomicBool);

impl Wake for Flag {
    fn wake(self: Arc<Self>) {
        self.0.store(true, Ordering::SeqCst);
    }
    fn wake_by_ref(self: &Arc<Self>) {
        self.0.store(true, Ordering::SeqCst);
    }
}

type CallFut = Pin<Box<dyn Future<Output = Result<(), ()>>>>;

pub fn run(c: &Fields) -> Fields {
    let Some(cfg) = c.first().filter(|f| f.len() == 2) else {
        return vec![vec![9997]];
    };
    let max_cap = cfg[0].min(u64::from(u16::MAX)) as u16;
    let max_size = cfg[1] as usize;

    let gates: Gates<u64> = Gates::new();
    let srv: PipelineBinding<InFlightServiceImpl<Gated>, Req> =
        Pipeline::new(InFlightServiceImpl::new(max_cap, max_size, Gated { gates: gates.clone() })).bind();

    let flag = Arc::new(Flag(AtomicBool::new(false)));
    let waker = Waker::from(flag.clone());

    let mut running: Vec<(u64, CallFut)> = Vec::new();
    let mut submitted: Vec<(u64, CallFut)> = Vec::new();
    let mut paused = false;
    let mut next_id = 0u64;
    let mut may_call = false;
    let mut obs = Fields::new();

    for op in &c[1..] {
        match op.as_slice() {
            [1] => {
                flag.0.store(false, Ordering::SeqCst);
                let mut cx = Context::from_waker(&waker);
                may_call = match srv.poll_ready(&mut cx) {
                    Poll::Ready(Ok(())) => true,
                    Poll::Ready(Err(())) => unreachable!(),
                    Poll::Pending => false,
                };
                paused = !may_call;
            }
            [2, kind, size] => {
                if paused {
                    return vec![vec![9998]];
                }
                next_id += 1;
                let req = Req {
                    kind: *kind,
                    size: u32::try_from(*size).unwrap_or(u32::MAX),
                    id: next_id,
                };
                let mut fut: CallFut = Box::pin(srv.call_nowait(req));
                if poll_once(&mut fut).is_pending() {
                    running.push((next_id, fut));
                }
                may_call = false;
            }
            [3, k] => {
                if let Ok(k) = usize::try_from(*k)
                    && k < running.len()
                {
                    let (id, mut fut) = running.remove(k);
                    gates.open(id, 0);
                    if poll_once(&mut fut).is_pending() {
                        // never: the gate is open
                        running.insert(k, (id, fut));
                    }
                }
            }
            [4, kind, size] => {
                next_id += 1;
                let req = Req {
                    kind: *kind,
                    size: u32::try_from(*size).unwrap_or(u32::MAX),
                    id: next_id,
                };
                submitted.push((next_id, Box::pin(srv.call_nowait(req))));
                may_call = false;
            }
            [5, j] => {
                if let Ok(j) = usize::try_from(*j)
                    && j < submitted.len()
                {
                    if paused {
                        return vec![vec![9998]];
                    }
                    let (id, mut fut) = submitted.remove(j);
                    if poll_once(&mut fut).is_pending() {
                        running.push((id, fut));
                    }
                }
            }
            _ => {}
        }
        obs.push(vec![
            u64::from(may_call),
            u64::from(flag.0.load(Ordering::SeqCst)),
            running.len() as u64,
            submitted.len() as u64,
        ]);
    }
    obs
}
