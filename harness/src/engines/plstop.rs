//! engines "plstop3" / "plstop5" (numbers 42 / 43): what the reader of a streamed PUBLISH payload sees when
//! the connection ends (payload-reader clause of property C07).  A real v3 / v5 MqttServer over
//! ntex_io::testing::IoTest; the harness plays the peer (raw bytes), the publish service (readiness
//! switchable, handler gated), the payload reader task (hand polled) and the control service (counts Stop).
//!
//! case: field 0 = configuration `min_chunk_size, max_payload_buffer_size, declared_payload_size, reader_mode`
//!     reader_mode 0: the handler hands the `Payload` to a reader task that calls `read()` again and again
//!                    until Ok(None) / Err;  1: the reader task awaits `read_all()`
//!     (declared_payload_size is capped at 1024)
//!   then one field per operation
//!     1,n  the peer writes the PUBLISH header (QoS 1, id 1, topic "t1") announcing declared_payload_size
//!          bytes together with the first min(n, declared) payload bytes, in one write; only once per case,
//!          a second `1,..` does nothing.  Payload bytes are the running counter 0,1,2.. mod 256
//!     2,n  the peer writes min(n, what is left of the declared size) more payload bytes; nothing before op 1
//!     3    readiness of the publish service starts failing (`Service::ready` answers Err from now on); the
//!          dispatcher is woken through the waker the service registered in `Service::poll`
//!     4    the peer closes the socket (IoTest::close: the server's next read answers 0 bytes; while the server's
//!          read task is paused the in-memory transport does not notice); from now on the peer receives nothing
//!     5    sink.close()        6  sink.force_close()     (the MqttSink handed out at the handshake)
//!     7    the reader task is polled once: mode 0 one poll of the current `read()` future (a new one after
//!          the previous answered Ready), mode 1 one poll of the `read_all()` future; nothing while the
//!          handler has not been given a publish, nothing once the reader has finished
//!     8    the handler completes Ok (remembered if the handler has not started yet)
//!     9    the peer writes a PINGREQ; only when the peer has written the whole payload, else nothing
//!     10   the application abandons the payload: the reader task (or the slot the handler left it in) is dropped
//!          with the `Payload`; status and bytes read as 0 from then on
//! observation: one field per operation (after settle)
//!     status, bytes, stops, open, first byte of every packet the peer received during the operation..
//!   status  0 the reader has not been polled yet, 1 polled and not finished, 2 finished Ok (read() answered
//!           Ok(None) / read_all() Ok(..)), 3 finished with Err
//!   bytes   number of payload bytes the reader holds (mode 1: length of the result of read_all once Ok)
//!   stops   number of Control::Stop notifications the control service has seen
//!   open    0 once the server end of the connection is closed / dropped
use std::cell::{Cell, RefCell};
use std::future::Future;
use std::pin::Pin;
use std::rc::Rc;
use std::task::{Context, Poll, Waker};

use ntex::service::{Service, ServiceCtx, fn_factory_with_config, fn_service};
use ntex_bytes::Bytes;
use ntex_io::testing::IoTest;
use ntex_mqtt::error::PayloadError;
use ntex_mqtt::{Control, MqttServiceConfig, Payload, QoS, v3, v5};
use ntex_util::task::LocalWaker;

use crate::conn::{self, HErr};
use crate::rt::{Gates, settle};
use crate::Fields;

const MAXLEN: u64 = 1024;

/// what the application side shares with the harness
struct Shared {
    fail: Cell<bool>,
    waker: LocalWaker,
    payload: RefCell<Option<Payload>>,
    stops: Cell<u64>,
}

type Sh = Rc<Shared>;

struct PubSvc {
    sh: Sh,
    gate: Gates<u64>,
}

impl Service<v3::Publish> for PubSvc {
    type Response = ();
    type Error = HErr;

    async fn ready(&self, _: ServiceCtx<'_, Self>) -> Result<(), HErr> {
        if self.sh.fail.get() { Err(HErr(1)) } else { Ok(()) }
    }

    fn poll(&self, cx: &mut Context<'_>) -> Result<(), HErr> {
        self.sh.waker.register(cx.waker());
        Ok(())
    }

    async fn call(&self, mut p: v3::Publish, _: ServiceCtx<'_, Self>) -> Result<(), HErr> {
        // the payload is processed by a separate task (the hand polled reader)
        *self.sh.payload.borrow_mut() = Some(p.take_payload());
        let _ = self.gate.wait(1).await;
        Ok(())
    }
}

struct PubSvc5(PubSvc);

impl Service<v5::Publish> for PubSvc5 {
    type Response = v5::PublishAck;
    type Error = HErr;

    async fn ready(&self, _: ServiceCtx<'_, Self>) -> Result<(), HErr> {
        if self.0.sh.fail.get() { Err(HErr(1)) } else { Ok(()) }
    }

    fn poll(&self, cx: &mut Context<'_>) -> Result<(), HErr> {
        self.0.sh.waker.register(cx.waker());
        Ok(())
    }

    async fn call(&self, mut p: v5::Publish, _: ServiceCtx<'_, Self>) -> Result<v5::PublishAck, HErr> {
        *self.0.sh.payload.borrow_mut() = Some(p.take_payload());
        let _ = self.0.gate.wait(1).await;
        Ok(p.ack())
    }
}

trait SinkApi {
    fn close(&self);
    fn force_close(&self);
}

impl SinkApi for v3::MqttSink {
    fn close(&self) {
        v3::MqttSink::close(self);
    }
    fn force_close(&self) {
        v3::MqttSink::force_close(self);
    }
}

impl SinkApi for v5::MqttSink {
    fn close(&self) {
        v5::MqttSink::close(self);
    }
    fn force_close(&self) {
        v5::MqttSink::force_close(self);
    }
}

fn mqtt_cfg(cfgf: &[u64]) -> MqttServiceConfig {
    MqttServiceConfig::new()
        .set_max_qos(QoS::AtLeastOnce)
        .set_min_chunk_size(cfgf[0].min(1 << 20) as u32)
        .set_max_payload_buffer_size(cfgf[1].min(1 << 20) as usize)
}

async fn server3(cfgf: &[u64], sh: Sh, gate: Gates<u64>) -> (IoTest, Box<dyn SinkApi>) {
    let slot: conn::Slot<v3::MqttSink> = Rc::new(RefCell::new(None));
    let s2 = slot.clone();
    let sh2 = sh.clone();
    let srv = v3::MqttServer::new(move |h: v3::Handshake| {
        let slot = s2.clone();
        async move {
            *slot.borrow_mut() = Some(h.sink());
            Ok::<_, HErr>(h.ack((), false))
        }
    })
    .control(fn_service(move |c: Control<HErr>| {
        if let Control::Stop(_) = &c {
            sh2.stops.set(sh2.stops.get() + 1);
        }
        async move { Ok::<_, HErr>(None) }
    }))
    .publish(fn_factory_with_config(move |_: v3::Session<()>| {
        let svc = PubSvc { sh: sh.clone(), gate: gate.clone() };
        async move { Ok::<_, HErr>(svc) }
    }));
    let peer = conn::start_server(srv, conn::shared_cfg("PS3", mqtt_cfg(cfgf))).await;
    peer.write(conn::V3_CONNECT);
    settle().await;
    let _connack = peer.read_any();
    let sink = slot.borrow_mut().take().expect("handshake ran");
    (peer, Box::new(sink))
}

async fn server5(cfgf: &[u64], sh: Sh, gate: Gates<u64>) -> (IoTest, Box<dyn SinkApi>) {
    let slot: conn::Slot<v5::MqttSink> = Rc::new(RefCell::new(None));
    let s2 = slot.clone();
    let sh2 = sh.clone();
    let srv = v5::MqttServer::new(move |h: v5::Handshake| {
        let slot = s2.clone();
        async move {
            *slot.borrow_mut() = Some(h.sink());
            Ok::<_, HErr>(h.ack(()))
        }
    })
    .control(fn_service(move |c: Control<HErr>| {
        if let Control::Stop(_) = &c {
            sh2.stops.set(sh2.stops.get() + 1);
        }
        async move { Ok::<_, HErr>(None) }
    }))
    .publish(fn_factory_with_config(move |_: v5::Session<()>| {
        let svc = PubSvc5(PubSvc { sh: sh.clone(), gate: gate.clone() });
        async move { Ok::<_, HErr>(svc) }
    }));
    let peer = conn::start_server(srv, conn::shared_cfg("PS5", mqtt_cfg(cfgf))).await;
    peer.write(conn::V5_CONNECT);
    settle().await;
    let _connack = peer.read_any();
    let sink = slot.borrow_mut().take().expect("handshake ran");
    (peer, Box::new(sink))
}

// ---------------------------------------------------------------- peer side
fn varlen(mut n: usize, out: &mut Vec<u8>) {
    loop {
        let mut d = (n % 128) as u8;
        n /= 128;
        if n > 0 {
            d |= 0x80;
        }
        out.push(d);
        if n == 0 {
            break;
        }
    }
}

/// PUBLISH QoS 1, id 1, topic "t1", announcing `declared` payload bytes (none of them included)
fn publish_header(declared: u64, v5: bool) -> Vec<u8> {
    let mut body: Vec<u8> = vec![0, 2, b't', b'1', 0, 1];
    if v5 {
        body.push(0);
    }
    let mut out = vec![0x32];
    varlen(body.len() + declared as usize, &mut out);
    out.extend_from_slice(&body);
    out
}

fn counter(ctr: &mut u64, n: u64) -> Vec<u8> {
    let v: Vec<u8> = (0..n).map(|i| ((*ctr + i) % 256) as u8).collect();
    *ctr += n;
    v
}

fn split_frame(buf: &[u8]) -> Option<usize> {
    let mut len = 0usize;
    let mut shift = 0;
    let mut i = 1;
    loop {
        let b = *buf.get(i)?;
        len |= ((b & 0x7f) as usize) << shift;
        i += 1;
        if b & 0x80 == 0 {
            break;
        }
        shift += 7;
        if shift > 21 {
            return None;
        }
    }
    if buf.len() >= i + len { Some(i + len) } else { None }
}

// ---------------------------------------------------------------- the reader task
type ReadFut = Pin<Box<dyn Future<Output = (Payload, Result<Option<Bytes>, PayloadError>)>>>;
type AllFut = Pin<Box<dyn Future<Output = (Payload, Result<Bytes, PayloadError>)>>>;

enum Reader {
    /// the handler has not handed over a payload yet
    NoPayload,
    /// no future borrows the payload
    Idle(Payload),
    Read(ReadFut),
    All(AllFut),
    Gone,
}

pub async fn run_case(c: &Fields, v5: bool) -> Fields {
    let Some(cfgf) = c.first().filter(|f| f.len() == 4 && f[3] <= 1) else {
        return vec![vec![9997]];
    };
    let declared = cfgf[2].min(MAXLEN);
    let read_all = cfgf[3] == 1;

    let sh: Sh = Rc::new(Shared {
        fail: Cell::new(false),
        waker: LocalWaker::new(),
        payload: RefCell::new(None),
        stops: Cell::new(0),
    });
    let gate: Gates<u64> = Gates::new();
    let (io, sink) = if v5 {
        server5(cfgf, sh.clone(), gate.clone()).await
    } else {
        server3(cfgf, sh.clone(), gate.clone()).await
    };

    let mut pending: Vec<u8> = Vec::new();
    let mut ctr = 0u64;
    let mut header_sent = false;
    let mut peer_closed = false;
    let mut reader = Reader::NoPayload;
    let mut status = 0u64;
    let mut held = 0u64;
    let mut obs = Fields::new();

    for op in c.iter().skip(1) {
        match op.as_slice() {
            [1, n] if !header_sent => {
                header_sent = true;
                let mut b = publish_header(declared, v5);
                b.extend_from_slice(&counter(&mut ctr, (*n).min(declared)));
                io.write(b);
            }
            [2, n] if header_sent => {
                let k = (*n).min(declared - ctr);
                if k > 0 {
                    io.write(counter(&mut ctr, k));
                }
            }
            [3] => {
                sh.fail.set(true);
                sh.waker.wake();
            }
            [4] => {
                peer_closed = true;
                // the part of IoTest::close before its real-time sleep: read state = Close, wake the read task
                let mut f = Box::pin(io.close());
                let mut cx = Context::from_waker(Waker::noop());
                let _ = f.as_mut().poll(&mut cx);
            }
            [5] => sink.close(),
            [6] => sink.force_close(),
            // the application abandons the payload: whatever holds it (the handler's slot, the reader task with its
            // pending future) is dropped
            [10] if status < 2 => {
                let in_slot = sh.payload.borrow_mut().take().is_some();
                if in_slot || !matches!(reader, Reader::NoPayload | Reader::Gone) {
                    reader = Reader::Gone;
                    status = 0;
                    held = 0;
                }
            }
            [7] if status < 2 && !matches!(reader, Reader::Gone) => {
                if matches!(reader, Reader::NoPayload)
                    && let Some(pl) = sh.payload.borrow_mut().take()
                {
                    reader = Reader::Idle(pl);
                }
                let mut cx = Context::from_waker(Waker::noop());
                match std::mem::replace(&mut reader, Reader::Gone) {
                    Reader::NoPayload => reader = Reader::NoPayload,
                    r if read_all => {
                        let mut fut: AllFut = match r {
                            Reader::Idle(pl) => Box::pin(async move {
                                let r = pl.read_all().await;
                                (pl, r)
                            }),
                            Reader::All(f) => f,
                            _ => unreachable!(),
                        };
                        status = 1;
                        match fut.as_mut().poll(&mut cx) {
                            Poll::Pending => reader = Reader::All(fut),
                            Poll::Ready((pl, r)) => {
                                reader = Reader::Idle(pl);
                                match r {
                                    Ok(b) => {
                                        status = 2;
                                        held = b.len() as u64;
                                    }
                                    Err(_) => status = 3,
                                }
                            }
                        }
                    }
                    r => {
                        let mut fut: ReadFut = match r {
                            Reader::Idle(pl) => Box::pin(async move {
                                let r = pl.read().await;
                                (pl, r)
                            }),
                            Reader::Read(f) => f,
                            _ => unreachable!(),
                        };
                        status = 1;
                        match fut.as_mut().poll(&mut cx) {
                            Poll::Pending => reader = Reader::Read(fut),
                            Poll::Ready((pl, r)) => {
                                reader = Reader::Idle(pl);
                                match r {
                                    Ok(Some(b)) => held += b.len() as u64,
                                    Ok(None) => status = 2,
                                    Err(_) => status = 3,
                                }
                            }
                        }
                    }
                }
            }
            [8] => gate.open(1, 0),
            [9] if header_sent && ctr == declared => io.write([0xc0u8, 0]),
            _ => {}
        }
        settle().await;
        let mut o = vec![status, held, sh.stops.get(), u64::from(!(io.is_closed() || io.is_server_dropped()))];
        pending.extend_from_slice(&io.read_any());
        if peer_closed {
            // a peer that has closed its end receives nothing any more
            pending.clear();
        }
        while !pending.is_empty() {
            let Some(n) = split_frame(&pending) else { break };
            o.push(u64::from(pending[0]));
            pending.drain(..n);
        }
        obs.push(o);
    }
    // end of case: the peer goes away, let the server finish
    drop(reader);
    drop(io);
    settle().await;
    obs
}

/// all cases of the input on single-threaded ntex runtimes; a panic escaping into the runtime ends
/// the case with `9999` and the remaining cases run on a fresh runtime
pub fn run_lines(v5: bool, lines: Vec<String>) -> Vec<String> {
    use std::panic::{AssertUnwindSafe, catch_unwind};
    let lines: Vec<String> = lines.into_iter().filter(|l| !l.starts_with('#')).collect();
    let results: Rc<RefCell<Vec<String>>> = Rc::new(RefCell::new(Vec::new()));
    while results.borrow().len() < lines.len() {
        let start = results.borrow().len();
        let rest: Vec<String> = lines[start..].to_vec();
        let r2 = results.clone();
        let res = catch_unwind(AssertUnwindSafe(|| {
            crate::rt::block_on(async move {
                for line in rest {
                    let case = crate::parse_line(&line);
                    let obs = run_case(&case, v5).await;
                    r2.borrow_mut().push(crate::show_line(&obs));
                }
            });
        }));
        if res.is_err() {
            results.borrow_mut().push("9999".to_string());
        }
    }
    let out = results.borrow().clone();
    out
}
