//! engines for the MQTT v3 codec (stub)
use super::Engine;

pub fn lookup(_name: &str) -> Option<Engine> {
    None
}
