//! engines for the MQTT v3.1.1 codec: "dec3", "enc3", "varint"
//!
//! Dump grammar (flat, self-delimiting; printed by dec3, read by enc3) -- see coq/Model/EnginesV3.v:
//!   packet   ::= 1 connect | 2 connack | 4 id | 5 id | 6 id | 7 id | 8 id n (str qos)^n | 9 id n rc^n
//!              | 10 id n str^n | 11 id | 12 | 13 | 14
//!   connect  ::= clean_session keep_alive opt(lastwill) str(client_id) opt(str username) opt(str password)
//!   lastwill ::= qos retain str(topic) str(message)
//!   connack  ::= return_code session_present
//!   publish  ::= dup retain qos str(topic) opt(id) payload_size
//!   str ::= len bytes..   opt(X) ::= 0 | 1 X
use std::num::NonZeroU16;

use ntex_bytes::{BytePages, ByteString, Bytes, BytesMut};
use ntex_codec::{Decoder, Encoder};
use ntex_mqtt::error::{DecodeError, EncodeError};
use ntex_mqtt::v3::codec::{
    Codec, Connect, ConnectAck, ConnectAckReason, Decoded, Encoded, LastWill, Packet, Publish,
    SubscribeReturnCode,
};
use ntex_mqtt::QoS;

use super::Engine;
use crate::{Fields, nums_of};

pub fn lookup(name: &str) -> Option<Engine> {
    match name {
        "dec3" => Some(dec3),
        "sized3" => Some(sized3),
        "enc3" => Some(enc3),
        "varint" => Some(varint),
        _ => None,
    }
}

const U32MAX: u64 = u32::MAX as u64;

fn bad() -> Fields {
    vec![vec![97]]
}

fn de_code(e: &DecodeError) -> u64 {
    match e {
        DecodeError::InvalidProtocol => 1,
        DecodeError::InvalidLength => 2,
        DecodeError::MalformedPacket => 3,
        DecodeError::UnsupportedProtocolLevel => 4,
        DecodeError::ConnectReservedFlagSet => 5,
        DecodeError::ConnAckReservedFlagSet => 6,
        DecodeError::InvalidClientId => 7,
        DecodeError::UnsupportedPacketType => 8,
        DecodeError::PacketIdRequired => 9,
        DecodeError::MaxSizeExceeded { .. } => 10,
        DecodeError::Utf8Error => 11,
        DecodeError::UnexpectedPayload => 12,
    }
}

fn ee_code(e: &EncodeError) -> u64 {
    match e {
        EncodeError::OverMaxPacketSize => 21,
        EncodeError::OverPublishSize => 22,
        EncodeError::PublishIncomplete => 23,
        EncodeError::InvalidLength => 24,
        EncodeError::MalformedPacket => 25,
        EncodeError::PacketIdRequired => 26,
        EncodeError::UnexpectedPayload => 27,
        EncodeError::ExpectPayload => 28,
        EncodeError::UnsupportedVersion => 29,
    }
}

fn bytes_checked(f: &[u64]) -> Option<Vec<u8>> {
    let mut v = Vec::with_capacity(f.len());
    for b in f {
        if *b > 255 {
            return None;
        }
        v.push(*b as u8);
    }
    Some(v)
}

// ------------------------------------------------------------------ printing
fn dump_str(s: &[u8], out: &mut Vec<u64>) {
    out.push(s.len() as u64);
    out.extend(nums_of(s));
}

fn qos_n(q: QoS) -> u64 {
    u64::from(u8::from(q))
}

fn dump_publish(p: &Publish, out: &mut Vec<u64>) {
    out.push(u64::from(p.dup));
    out.push(u64::from(p.retain));
    out.push(qos_n(p.qos));
    dump_str(p.topic.as_bytes(), out);
    match p.packet_id {
        None => out.push(0),
        Some(i) => {
            out.push(1);
            out.push(u64::from(i.get()));
        }
    }
    out.push(u64::from(p.payload_size));
}

fn dump_packet(p: &Packet, out: &mut Vec<u64>) {
    match p {
        Packet::Connect(c) => {
            out.push(1);
            out.push(u64::from(c.clean_session));
            out.push(u64::from(c.keep_alive));
            match &c.last_will {
                None => out.push(0),
                Some(w) => {
                    out.push(1);
                    out.push(qos_n(w.qos));
                    out.push(u64::from(w.retain));
                    dump_str(w.topic.as_bytes(), out);
                    dump_str(&w.message, out);
                }
            }
            dump_str(c.client_id.as_bytes(), out);
            match &c.username {
                None => out.push(0),
                Some(s) => {
                    out.push(1);
                    dump_str(s.as_bytes(), out);
                }
            }
            match &c.password {
                None => out.push(0),
                Some(s) => {
                    out.push(1);
                    dump_str(s, out);
                }
            }
        }
        Packet::ConnectAck(a) => {
            out.push(2);
            out.push(u64::from(u8::from(a.return_code)));
            out.push(u64::from(a.session_present));
        }
        Packet::PublishAck { packet_id } => out.extend([4, u64::from(packet_id.get())]),
        Packet::PublishReceived { packet_id } => out.extend([5, u64::from(packet_id.get())]),
        Packet::PublishRelease { packet_id } => out.extend([6, u64::from(packet_id.get())]),
        Packet::PublishComplete { packet_id } => out.extend([7, u64::from(packet_id.get())]),
        Packet::Subscribe { packet_id, topic_filters } => {
            out.extend([8, u64::from(packet_id.get()), topic_filters.len() as u64]);
            for (t, q) in topic_filters {
                dump_str(t.as_bytes(), out);
                out.push(qos_n(*q));
            }
        }
        Packet::SubscribeAck { packet_id, status } => {
            out.extend([9, u64::from(packet_id.get()), status.len() as u64]);
            for s in status {
                out.push(match s {
                    SubscribeReturnCode::Success(q) => qos_n(*q),
                    SubscribeReturnCode::Failure => 128,
                });
            }
        }
        Packet::Unsubscribe { packet_id, topic_filters } => {
            out.extend([10, u64::from(packet_id.get()), topic_filters.len() as u64]);
            for t in topic_filters {
                dump_str(t.as_bytes(), out);
            }
        }
        Packet::UnsubscribeAck { packet_id } => out.extend([11, u64::from(packet_id.get())]),
        Packet::PingRequest => out.push(12),
        Packet::PingResponse => out.push(13),
        Packet::Disconnect => out.push(14),
    }
}

// ------------------------------------------------------------------ parsing
struct Cur<'a> {
    s: &'a [u64],
    pos: usize,
}

impl Cur<'_> {
    fn left(&self) -> usize {
        self.s.len() - self.pos
    }
    fn num(&mut self, max: u64) -> Option<u64> {
        let v = *self.s.get(self.pos)?;
        if v > max {
            return None;
        }
        self.pos += 1;
        Some(v)
    }
    fn boolean(&mut self) -> Option<bool> {
        Some(self.num(1)? == 1)
    }
    fn qos(&mut self) -> Option<QoS> {
        QoS::try_from(self.num(2)? as u8).ok()
    }
    fn id(&mut self) -> Option<NonZeroU16> {
        NonZeroU16::new(self.num(65535)? as u16)
    }
    fn bytes(&mut self) -> Option<Bytes> {
        let n = self.num(u64::MAX)?;
        if n > self.left() as u64 {
            return None;
        }
        let n = n as usize;
        let b = bytes_checked(&self.s[self.pos..self.pos + n])?;
        self.pos += n;
        Some(Bytes::from(b))
    }
    fn string(&mut self) -> Option<ByteString> {
        ByteString::try_from(self.bytes()?).ok()
    }
    fn opt<T>(&mut self, f: impl Fn(&mut Self) -> Option<T>) -> Option<Option<T>> {
        match self.num(1)? {
            0 => Some(None),
            _ => Some(Some(f(self)?)),
        }
    }
    fn count(&mut self) -> Option<usize> {
        let n = self.num(u64::MAX)?;
        if n > self.left() as u64 {
            return None;
        }
        Some(n as usize)
    }
    fn publish(&mut self) -> Option<Publish> {
        let dup = self.boolean()?;
        let retain = self.boolean()?;
        let qos = self.qos()?;
        let topic = self.string()?;
        let packet_id = self.opt(Self::id)?;
        let payload_size = self.num(U32MAX)? as u32;
        Some(Publish { dup, retain, qos, topic, packet_id, payload_size })
    }
    fn packet(&mut self) -> Option<Packet> {
        match self.num(u64::MAX)? {
            1 => {
                let clean_session = self.boolean()?;
                let keep_alive = self.num(65535)? as u16;
                let last_will = self.opt(|c| {
                    let qos = c.qos()?;
                    let retain = c.boolean()?;
                    let topic = c.string()?;
                    let message = c.bytes()?;
                    Some(LastWill { qos, retain, topic, message })
                })?;
                let client_id = self.string()?;
                let username = self.opt(Self::string)?;
                let password = self.opt(Self::bytes)?;
                Some(Packet::Connect(Box::new(Connect {
                    clean_session,
                    keep_alive,
                    last_will,
                    client_id,
                    username,
                    password,
                })))
            }
            2 => {
                let return_code = ConnectAckReason::try_from(self.num(6)? as u8).ok()?;
                let session_present = self.boolean()?;
                Some(Packet::ConnectAck(ConnectAck { return_code, session_present }))
            }
            4 => Some(Packet::PublishAck { packet_id: self.id()? }),
            5 => Some(Packet::PublishReceived { packet_id: self.id()? }),
            6 => Some(Packet::PublishRelease { packet_id: self.id()? }),
            7 => Some(Packet::PublishComplete { packet_id: self.id()? }),
            8 => {
                let packet_id = self.id()?;
                let n = self.count()?;
                let mut topic_filters = Vec::new();
                for _ in 0..n {
                    let t = self.string()?;
                    let q = self.qos()?;
                    topic_filters.push((t, q));
                }
                Some(Packet::Subscribe { packet_id, topic_filters })
            }
            9 => {
                let packet_id = self.id()?;
                let n = self.count()?;
                let mut status = Vec::new();
                for _ in 0..n {
                    status.push(match self.num(128)? {
                        0 => SubscribeReturnCode::Success(QoS::AtMostOnce),
                        1 => SubscribeReturnCode::Success(QoS::AtLeastOnce),
                        2 => SubscribeReturnCode::Success(QoS::ExactlyOnce),
                        128 => SubscribeReturnCode::Failure,
                        _ => return None,
                    });
                }
                Some(Packet::SubscribeAck { packet_id, status })
            }
            10 => {
                let packet_id = self.id()?;
                let n = self.count()?;
                let mut topic_filters = Vec::new();
                for _ in 0..n {
                    topic_filters.push(self.string()?);
                }
                Some(Packet::Unsubscribe { packet_id, topic_filters })
            }
            11 => Some(Packet::UnsubscribeAck { packet_id: self.id()? }),
            12 => Some(Packet::PingRequest),
            13 => Some(Packet::PingResponse),
            14 => Some(Packet::Disconnect),
            _ => None,
        }
    }
}

// ------------------------------------------------------------------ dec3
fn state_tag(codec: &Codec) -> u64 {
    // the decoder state is private: read it from the Debug rendering
    let s = format!("{codec:?}");
    if s.contains("value: FrameHeader") {
        0
    } else if s.contains("value: Frame(") {
        1
    } else if s.contains("value: PublishHeader(") {
        2
    } else if s.contains("value: PublishPayload(") {
        3
    } else {
        96
    }
}

/// case: [max_size, min_chunk] ; [cut positions] ; [stream bytes]
fn dec3(c: &Fields) -> Fields {
    dec3_impl(c, false)
}

/// engine "sized3" (13): the same run, but every item is reported as what the in-flight limiter sees of it
/// (`impl SizedRequest for Decoded`): kind (1 packet, 2 publish, 3 chunk), size(), is_publish(), is_chunk()
fn sized3(c: &Fields) -> Fields {
    dec3_impl(c, true)
}

fn dec3_impl(c: &Fields, sized: bool) -> Fields {
    if c.len() != 3 || c[0].len() != 2 || c[0][0] > U32MAX || c[0][1] > U32MAX {
        return bad();
    }
    let Some(stream) = bytes_checked(&c[2]) else { return bad() };
    let codec = Codec::new();
    codec.set_max_size(c[0][0] as u32);
    codec.set_min_chunk_size(c[0][1] as u32);

    // pieces: cut positions are absolute offsets, forced monotone and clamped
    let mut pieces: Vec<&[u8]> = Vec::new();
    let mut prev: u64 = 0;
    let mut rest: &[u8] = &stream;
    for cut in &c[1] {
        let cc = (*cut).max(prev);
        let k = (cc - prev).min(rest.len() as u64) as usize;
        let (a, b) = rest.split_at(k);
        pieces.push(a);
        rest = b;
        prev = cc;
    }
    pieces.push(rest);

    let mut out: Fields = Vec::new();
    let mut buf = BytesMut::new();
    for p in pieces {
        buf.extend_from_slice(p);
        let mut guard = buf.len() + 2;
        loop {
            if guard == 0 {
                return vec![vec![95]]; // decode keeps producing items without consuming input
            }
            guard -= 1;
            let res = codec.decode(&mut buf);
            if sized && let Ok(Some(item)) = &res {
                let (size, is_publish, is_chunk) = ntex_mqtt::verif_hooks::sized_v3(item);
                let kind = match item {
                    Decoded::Packet(..) => 1,
                    Decoded::Publish(..) => 2,
                    Decoded::PayloadChunk(..) => 3,
                };
                out.push(vec![kind, u64::from(size), u64::from(is_publish), u64::from(is_chunk)]);
                continue;
            }
            match res {
                Ok(Some(Decoded::Packet(pkt, rl))) => {
                    let mut f = vec![1, u64::from(rl)];
                    dump_packet(&pkt, &mut f);
                    out.push(f);
                }
                Ok(Some(Decoded::Publish(pkt, payload, rl))) => {
                    let mut f = vec![2, u64::from(rl)];
                    dump_publish(&pkt, &mut f);
                    f.push(payload.len() as u64);
                    f.extend(nums_of(&payload));
                    out.push(f);
                }
                Ok(Some(Decoded::PayloadChunk(payload, eof))) => {
                    let mut f = vec![3, u64::from(eof)];
                    f.extend(nums_of(&payload));
                    out.push(f);
                }
                Ok(None) => break,
                Err(e) => {
                    out.push(vec![4, de_code(&e)]);
                    return out;
                }
            }
        }
    }
    out.push(vec![5, buf.len() as u64, state_tag(&codec)]);
    out
}

// ------------------------------------------------------------------ enc3
fn parse_op(f: &[u64]) -> Option<Encoded> {
    let mut c = Cur { s: f, pos: 0 };
    match c.num(3)? {
        1 => {
            let p = c.packet()?;
            if c.left() != 0 {
                return None;
            }
            Some(Encoded::Packet(p))
        }
        2 => {
            let has_buf = c.boolean()?;
            let p = c.publish()?;
            if has_buf {
                let b = bytes_checked(&f[c.pos..])?;
                Some(Encoded::Publish(p, Some(Bytes::from(b))))
            } else if c.left() != 0 {
                None
            } else {
                Some(Encoded::Publish(p, None))
            }
        }
        3 => Some(Encoded::PayloadChunk(Bytes::from(bytes_checked(&f[1..])?))),
        _ => None,
    }
}

/// the remaining length written at the start of `b` (the size the encoder claims)
fn wire_claim(b: &[u8]) -> u64 {
    if b.len() < 2 {
        return 0;
    }
    match ntex_mqtt::verif_hooks::decode_variable_length(&b[1..]) {
        Ok(Some((v, _))) => u64::from(v),
        _ => 96,
    }
}

/// case: [max_size] ; op ; op ; ...
fn enc3(c: &Fields) -> Fields {
    if c.is_empty() || c[0].len() != 1 || c[0][0] > U32MAX {
        return bad();
    }
    let mut ops = Vec::new();
    for f in &c[1..] {
        match parse_op(f) {
            Some(op) => ops.push(op),
            None => return bad(),
        }
    }
    let codec = Codec::new();
    codec.set_max_size(c[0][0] as u32);
    let mut dst = BytePages::default();
    let mut expected: Vec<u8> = Vec::new(); // concatenation of what successful operations appended
    let mut out: Fields = Vec::new();
    for op in ops {
        let is_chunk = matches!(op, Encoded::PayloadChunk(_));
        let before = dst.len();
        let res = codec.encodev(op, &mut dst);
        let after = dst.len();
        match res {
            Ok(()) => {
                let all = dst.clone().freeze();
                if after < before || all.len() != after {
                    return vec![vec![96]];
                }
                let app = &all[before..];
                let mut f = vec![0, if is_chunk { 0 } else { wire_claim(app) }];
                f.extend(nums_of(app));
                expected.extend_from_slice(app);
                out.push(f);
            }
            Err(e) => {
                out.push(vec![1, ee_code(&e), (after as u64).wrapping_sub(before as u64)]);
                if after >= before {
                    // whatever the failed operation left behind stays in the buffer
                    let all = dst.clone().freeze();
                    expected.extend_from_slice(&all[before..]);
                }
            }
        }
    }
    // the buffer as a whole must be the concatenation of the pieces observed
    let all = dst.freeze();
    if all.as_ref() != expected.as_slice() {
        return vec![vec![96]];
    }
    out
}

// ------------------------------------------------------------------ varint
/// case `[n]` -> bytes written by write_variable_length; case `[] ; [bytes]` -> decode_variable_length
fn varint(c: &Fields) -> Fields {
    if c.len() == 1 && c[0].len() == 1 {
        if c[0][0] > U32MAX {
            return bad();
        }
        let mut dst = BytePages::default();
        ntex_mqtt::verif_hooks::write_variable_length(c[0][0] as u32, &mut dst);
        let b = dst.freeze();
        return vec![nums_of(&b)];
    }
    if c.len() == 2 && c[0].is_empty() {
        let Some(s) = bytes_checked(&c[1]) else { return bad() };
        return match ntex_mqtt::verif_hooks::decode_variable_length(&s) {
            Ok(Some((v, consumed))) => vec![vec![0, u64::from(v), consumed as u64]],
            Ok(None) => vec![vec![1]],
            Err(e) => vec![vec![2, de_code(&e)]],
        };
    }
    bad()
}
