//! Connection set-up helpers for the stateful engines: a real v3 / v5 MqttServer (or client)
//! running over the in-memory transport ntex_io::testing::IoTest; the harness plays the peer
//! by writing/reading raw bytes on the other end.
use std::cell::RefCell;
use std::rc::Rc;

use ntex::service::{Pipeline, ServiceFactory, cfg::SharedCfg};
use ntex_io::{Io, IoBoxed, testing::IoTest};
use ntex_mqtt::{MqttServiceConfig, v3, v5};

use crate::rt::settle;

/// Error type of the harness' v5 services: `HErr(code)`; a code >= 0x80 that is a PUBACK reason
/// code is mapped by the application to that negative acknowledgement, anything else is a plain error
#[derive(Debug, Clone, Copy, PartialEq, Eq)]
pub struct HErr(pub u8);

impl From<()> for HErr {
    fn from((): ()) -> Self {
        HErr(0)
    }
}

impl TryFrom<HErr> for v5::PublishAck {
    type Error = HErr;
    fn try_from(e: HErr) -> Result<Self, HErr> {
        match v5::codec::PublishAckReason::try_from(e.0) {
            Ok(code) if e.0 >= 0x80 => Ok(v5::PublishAck::new(code)),
            _ => Err(e),
        }
    }
}

/// slot filled by the handshake service with the connection's sink
pub type Slot<T> = Rc<RefCell<Option<T>>>;

pub const V3_CONNECT: &[u8] = b"\x10\x0d\x00\x04MQTT\x04\x02\x00\x3c\x00\x01c";
/// v5 CONNECT, clean start, keep-alive 60, no properties, client id "c"
pub const V5_CONNECT: &[u8] = b"\x10\x0e\x00\x04MQTT\x05\x02\x00\x3c\x00\x00\x01c";
/// the same CONNECT announcing Maximum Packet Size = 4096 (property 0x27): the server's encoder then refuses
/// every packet larger than that (`EncodeError::OverMaxPacketSize`)
pub const V5_CONNECT_MAX_4096: &[u8] =
    b"\x10\x13\x00\x04MQTT\x05\x02\x00\x3c\x05\x27\x00\x00\x10\x00\x00\x01c";

/// Start a server task for `factory` on the server end of a fresh IoTest pair; returns the peer end.
/// `cfg` carries MqttServiceConfig (max_send, max_receive, ...). The server future runs in a
/// spawned task until the connection ends.
pub async fn start_server<F>(factory: F, cfg: SharedCfg) -> IoTest
where
    F: ServiceFactory<IoBoxed, SharedCfg, Response = ()> + 'static,
    F::Error: std::fmt::Debug,
    F::InitError: std::fmt::Debug,
{
    let (client, server) = IoTest::create();
    client.remote_buffer_cap(1 << 20);
    let io: IoBoxed = Io::new(server, cfg.clone()).into();
    let svc = Pipeline::new(factory.create(cfg).await.expect("service"));
    ntex::rt::spawn(async move {
        let _ = svc.call(io).await;
    });
    settle().await;
    client
}

pub fn shared_cfg(tag: &'static str, cfg: MqttServiceConfig) -> SharedCfg {
    SharedCfg::new(tag).add(cfg).into()
}

/// minimal v3 server whose handshake stores the sink in `slot` and accepts
pub async fn v3_server_with_sink(
    slot: Slot<v3::MqttSink>,
    cfg: MqttServiceConfig,
) -> IoTest {
    let srv = v3::MqttServer::new(move |h: v3::Handshake| {
        let slot = slot.clone();
        async move {
            *slot.borrow_mut() = Some(h.sink());
            Ok::<_, ()>(h.ack((), false))
        }
    })
    .publish(|_p: v3::Publish| async { Ok::<_, ()>(()) });
    let peer = start_server(srv, shared_cfg("V3", cfg)).await;
    peer.write(V3_CONNECT);
    settle().await;
    let _connack = peer.read_any();
    peer
}

/// minimal v5 server whose handshake stores the sink in `slot` and accepts
pub async fn v5_server_with_sink(
    slot: Slot<v5::MqttSink>,
    cfg: MqttServiceConfig,
) -> IoTest {
    v5_server_with_sink_connect(slot, cfg, V5_CONNECT).await
}

/// `v5_server_with_sink` with the CONNECT packet the peer sends given by the caller
pub async fn v5_server_with_sink_connect(
    slot: Slot<v5::MqttSink>,
    cfg: MqttServiceConfig,
    connect: &'static [u8],
) -> IoTest {
    let srv = v5::MqttServer::new(move |h: v5::Handshake| {
        let slot = slot.clone();
        async move {
            *slot.borrow_mut() = Some(h.sink());
            Ok::<_, HErr>(h.ack(()))
        }
    })
    .publish(|p: v5::Publish| async move { Ok::<_, HErr>(p.ack()) });
    let peer = start_server(srv, shared_cfg("V5", cfg)).await;
    peer.write(connect);
    settle().await;
    let _connack = peer.read_any();
    peer
}
